#!/usr/bin/env python3
import json,base64,sys
for f in sys.argv[1:]:
    d=json.load(open(f)); print(f); print(d['failure'][:600])
    c=d['case']
    if 'cfg' in c:
        cfg=dict(c['cfg']); keys=[base64.b64decode(k) for k in cfg.pop('keys')]
        print(cfg); print([k[:14] for k in keys])
        for i,o in enumerate(c['ops']):
            o=dict(o)
            if o.get('v')=={'c':'','n':0,'s':0}: o.pop('v')
            print('  ',i,o)
        for k in c:
            if k not in('cfg','ops'): print(k, c[k])
    else:
        print(json.dumps(c)[:3000])
