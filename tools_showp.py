import json,base64,sys
d=json.load(open(sys.argv[1]))
print(d['failure'][:500]); c=d['case']; print(c['cfg'])
for ci,conn in enumerate(c['conns']):
    print("conn",ci)
    for i,cmd in enumerate(conn['cmds']):
        cmd=dict(cmd); cmd['keys']=[base64.b64decode(k)[:30] for k in cmd.get('keys') or []]
        if cmd.get('raw'): cmd['raw']=base64.b64decode(cmd['raw'])
        if cmd.get('v')=={'c':'','n':0,'s':0}: cmd.pop('v')
        print(' ',i,cmd)
    print('  splits',conn.get('splits'),'batch',conn.get('batch'),'drop',conn.get('dropcmd'),conn.get('dropat'))
