#!/usr/bin/env python3
"""Regenerates MANIFEST.json from checks.py (claimed = properties listed in CLAIMED)."""
import json, subprocess, sys
sys.path.insert(0, '/verif')
from checks import CHECKS, CLAIMED, TEXT
props = [json.loads(l) for l in open('/verif/properties.jsonl')]
commits = subprocess.run(['git','-C','/repo','log','--format=%h %s'],capture_output=True,text=True).stdout.splitlines()
hook_commits=[c.split()[0] for c in commits if c.split(' ',1)[1].startswith('verif hooks')]
m = {
 "version": 1,
 "setup_cmd": "python3 verif.py setup",
 "hooks": {
  "guard": "verif",
  "enable": "go build tag 'verif': the driver copies /repo's working tree to a scratch directory, adds the harness _test.go files and builds with `go test -c -tags verif`",
  "baseline_off_cmd": "cd /repo && GOFLAGS=-mod=mod GOPROXY=off GOSUMDB=off GOTOOLCHAIN=local go test -json -vet=off -count=1 -timeout 25m ./...",
  "source_commits": hook_commits[::-1],
  "add_only": True
 },
 "engines": [
  {"name": "rapid-harness", "path": "verif.py", "serves_properties": sorted(CLAIMED),
   "kind_free_text": "property-based testing with pgregory.net/rapid v1.3.0 (stateful histories, structured inputs, shrinking), harness-owned fault and schedule injection through build-tag-guarded hook points, native Go fuzzing in the thorough tier; harness compiled into the packages of a scratch copy of /repo; driver shards over 16 processes, aggregates statistics, writes evidence, handles known findings"}
 ],
 "checks": [],
 "not_applicable": [],
 "notes": "Exit 2 of a check means infrastructure problem / inconclusive (never a claim about the property). known_findings.json lists genuine defects: 'fixed' entries (with their fix: commits in /repo) are regression cases that must pass; 'known' entries print KNOWN-FINDING lines and are excluded from the search by construction."
}
for p in props:
    pid=p['id']
    if pid in CLAIMED:
        t=TEXT[pid]
        c={"property_id":pid,
           "quick_cmd":"python3 verif.py check %s --tier quick"%pid,
           "thorough_cmd":"python3 verif.py check %s --tier thorough"%pid,
           "evidence_file":"evidence/%s.json"%pid,
           "replay_cmd_template":"python3 verif.py replay {path}",
           "engine":"rapid-harness",
           "level_claimed":{"category":CHECKS[pid]['level'],"text":t['level_text'],"design_ref":"DESIGN.md section 5, "+pid},
           "level_note":t['note'],
           "technique":t['technique']}
        m['checks'].append(c)
    else:
        m['not_applicable'].append({"property_id":pid,"reason":TEXT.get(pid,{}).get('na',"check not registered yet in this session (harness under construction); the technique applies, see DESIGN.md section 5")})
json.dump(m,open('/verif/MANIFEST.json','w'),indent=1)
print("claimed",sorted(CLAIMED))
