package verifkit

// Independent recomputation of the merkle directory listing (C08, C15): counts, hashes and item sets as a pure
// function of the content.

import (
	"fmt"
	"strconv"
	"strings"
)

type RefItem struct {
	Ver   int32
	Vhash uint16
}

type RefTree struct {
	Depth, Height int
	Items         map[uint64]RefItem
}

func HexDigit(h uint64, i int) int { return int(h>>uint(4*(15-i))) & 0xf }

func HasPrefix(h uint64, prefix []int) bool {
	for i, d := range prefix {
		if HexDigit(h, i) != d {
			return false
		}
	}
	return true
}

func (rt *RefTree) Count(prefix []int) uint32 {
	n := uint32(0)
	for h, it := range rt.Items {
		if it.Ver > 0 && HasPrefix(h, prefix) {
			n++
		}
	}
	return n
}

// nodeHash of the node with the given prefix (len(prefix)-depth = level of the node).
func (rt *RefTree) NodeHash(prefix []int) uint16 {
	level := len(prefix) - rt.Depth
	if level >= rt.Height-1 {
		var s uint16
		for h, it := range rt.Items {
			if it.Ver > 0 && HasPrefix(h, prefix) {
				s += it.Vhash * uint16(h>>32)
			}
		}
		return s
	}
	cnt := rt.Count(prefix)
	var hash uint16
	for i := 0; i < 16; i++ {
		if cnt > 256 {
			hash *= 97
		}
		hash += rt.NodeHash(append(append([]int{}, prefix...), i))
	}
	return hash
}

// list returns the expected listing for a prefix (len >= depth): either node lines or the item set.
func (rt *RefTree) List(prefix []int) (nodes []string, items map[string]bool) {
	l := rt.Depth + rt.Height - 1
	if len(prefix) < l {
		l = len(prefix)
	}
	nodePrefix := prefix[:l]
	level := l - rt.Depth
	if level >= rt.Height-1 || rt.Count(nodePrefix) < 256 {
		items = map[string]bool{}
		for h, it := range rt.Items {
			if HasPrefix(h, prefix) {
				items[fmt.Sprintf("%016x %d %d", h, int(it.Vhash), it.Ver)] = true
			}
		}
		return nil, items
	}
	for i := 0; i < 16; i++ {
		cp := append(append([]int{}, nodePrefix...), i)
		nodes = append(nodes, fmt.Sprintf("%x/ %d %d", i, rt.NodeHash(cp), int(rt.Count(cp))))
	}
	return nodes, nil
}

func PrefixString(p []int) string {
	var sb strings.Builder
	for _, d := range p {
		sb.WriteString(strconv.FormatInt(int64(d), 16))
	}
	return sb.String()
}

// compareListing checks the output of ListDir for a prefix against the reference.
// liveOnly: item lines with negative versions in got are ignored unless the key is a known tombstone candidate.
func CompareListing(rt *RefTree, prefix []int, got []byte, tombOK map[uint64]bool) error {
	lines := []string{}
	for _, l := range strings.Split(string(got), "\n") {
		if l != "" {
			lines = append(lines, l)
		}
	}
	nodes, items := rt.List(prefix)
	ps := PrefixString(prefix)
	if nodes != nil {
		if len(lines) != 16 {
			return fmt.Errorf("prefix %q: expected a node listing of 16 lines, got %d lines: %.200q", ps, len(lines), string(got))
		}
		for i := range nodes {
			if lines[i] != nodes[i] {
				return fmt.Errorf("prefix %q: node line %d = %q, recomputed from content %q", ps, i, lines[i], nodes[i])
			}
		}
		return nil
	}
	gotSet := map[string]bool{}
	for _, l := range lines {
		if strings.Contains(l, "/ ") {
			return fmt.Errorf("prefix %q: expected an item listing, got node line %q", ps, l)
		}
		if gotSet[l] {
			return fmt.Errorf("prefix %q: item line %q listed twice", ps, l)
		}
		gotSet[l] = true
	}
	for l := range items {
		f := strings.Fields(l)
		ver, _ := strconv.Atoi(f[2])
		if ver < 0 {
			continue // a tombstone may or may not be listed
		}
		if !gotSet[l] {
			return fmt.Errorf("prefix %q: live item %q is missing from the listing (%d lines)", ps, l, len(lines))
		}
	}
	for l := range gotSet {
		if items[l] {
			continue
		}
		f := strings.Fields(l)
		if len(f) != 3 {
			return fmt.Errorf("prefix %q: malformed item line %q", ps, l)
		}
		h, _ := strconv.ParseUint(f[0], 16, 64)
		ver, _ := strconv.Atoi(f[2])
		if ver < 0 && tombOK != nil && tombOK[h] {
			continue
		}
		return fmt.Errorf("prefix %q: listing contains %q which is not in the content (live entry for a deleted/unknown key, or wrong hash/version/value hash)", ps, l)
	}
	return nil
}
