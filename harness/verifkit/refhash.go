package verifkit

import (
	"hash/crc32"
	"math/bits"
)

// Independent reference implementations of the historical beansdb hashes.

// Fnv1aSigned is FNV-1a over sign-extended bytes (the historical quirk).
func Fnv1aSigned(data []byte) uint32 {
	h := uint32(0x811c9dc5)
	for _, b := range data {
		var e uint32
		if b >= 0x80 {
			e = 0xffffff00 | uint32(b)
		} else {
			e = uint32(b)
		}
		h ^= e
		h *= 0x01000193
	}
	return h
}

// Murmur3_32 is MurmurHash3 x86 32-bit, seed 0, written from the public
// description of the algorithm.
func Murmur3_32(data []byte, seed uint32) uint32 {
	const c1, c2 = 0xcc9e2d51, 0x1b873593
	h := seed
	n := len(data)
	i := 0
	for ; i+4 <= n; i += 4 {
		k := uint32(data[i]) | uint32(data[i+1])<<8 | uint32(data[i+2])<<16 | uint32(data[i+3])<<24
		k *= c1
		k = bits.RotateLeft32(k, 15)
		k *= c2
		h ^= k
		h = bits.RotateLeft32(h, 13)
		h = h*5 + 0xe6546b64
	}
	var k uint32
	switch n & 3 {
	case 3:
		k ^= uint32(data[i+2]) << 16
		fallthrough
	case 2:
		k ^= uint32(data[i+1]) << 8
		fallthrough
	case 1:
		k ^= uint32(data[i])
		k *= c1
		k = bits.RotateLeft32(k, 15)
		k *= c2
		h ^= k
	}
	h ^= uint32(n)
	h ^= h >> 16
	h *= 0x85ebca6b
	h ^= h >> 13
	h *= 0xc2b2ae35
	h ^= h >> 16
	return h
}

// KeyHash is the 64-bit key hash: signed FNV-1a in the high half, murmur3-32 in the low half.
func KeyHash(key []byte) uint64 {
	return uint64(Fnv1aSigned(key))<<32 | uint64(Murmur3_32(key, 0))
}

// Vhash is the 16-bit value hash.
func Vhash(v []byte) uint16 {
	l := len(v)
	h := uint32(l) * 97
	if l <= 1024 {
		h += Fnv1aSigned(v)
	} else {
		h += Fnv1aSigned(v[:512])
		h *= 97
		h += Fnv1aSigned(v[l-512:])
	}
	return uint16(h)
}

// CRC32 is the IEEE CRC-32 of the concatenation of parts.
func CRC32(parts ...[]byte) uint32 {
	c := uint32(0)
	for _, p := range parts {
		c = crc32.Update(c, crc32.IEEETable, p)
	}
	return c
}
