package verifkit

import (
	"encoding/json"
	"fmt"
	"os"
	"path/filepath"
)

// FailFile is the replay file format shared by all checks.
type FailFile struct {
	Property string          `json:"property"`
	Check    string          `json:"check"`
	Failure  string          `json:"failure"`
	Case     json.RawMessage `json:"case"`
	Known    string          `json:"known_finding,omitempty"`
}

func failDir() string {
	d := os.Getenv("VERIF_FAILDIR")
	if d == "" {
		return ""
	}
	os.MkdirAll(d, 0755)
	return d
}

// SetCurrent persists the case about to be executed, so that a process death
// can be attributed to it by the driver.
func SetCurrent(property, check string, c interface{}) {
	d := failDir()
	if d == "" {
		return
	}
	b, err := json.Marshal(c)
	if err != nil {
		return
	}
	ff := FailFile{Property: property, Check: check, Failure: "process died while executing this case", Case: b}
	out, _ := json.Marshal(ff)
	os.WriteFile(filepath.Join(d, "current.json"), out, 0644)
}

// ClearCurrent removes the current-case marker (end of a check function).
func ClearCurrent() {
	if d := failDir(); d != "" {
		os.Remove(filepath.Join(d, "current.json"))
	}
}

// Fail writes (overwrites) the failure file of a check. With rapid the last
// write is the shrunk case, because rapid re-runs the minimal case last.
func Fail(property, check string, c interface{}, failure string) {
	StatsFor(check).Freeze()
	d := failDir()
	if d == "" {
		return
	}
	b, err := json.Marshal(c)
	if err != nil {
		b = []byte(fmt.Sprintf("%q", fmt.Sprintf("unmarshalable case: %v", err)))
	}
	ff := FailFile{Property: property, Check: check, Failure: failure, Case: b}
	out, _ := json.MarshalIndent(ff, "", " ")
	os.WriteFile(filepath.Join(d, "fail-"+check+".json"), out, 0644)
}

// LoadFail reads a replay file.
func LoadFail(path string) (*FailFile, error) {
	b, err := os.ReadFile(path)
	if err != nil {
		return nil, err
	}
	ff := &FailFile{}
	if err := json.Unmarshal(b, ff); err != nil {
		return nil, err
	}
	return ff, nil
}
