// Package verifkit is the store-agnostic part of the verification harness:
// statistics/evidence collection, failure (replay) files, deterministic value
// expansion, an independent data-file scanner/encoder and reference hashes.
// It must not import any gobeansdb package (the in-package harnesses import it).
package verifkit

import (
	"crypto/sha1"
	"encoding/binary"
	"encoding/json"
	"fmt"
	"os"
	"path/filepath"
	"sort"
	"strings"
	"sync"
)

const maxTrackedFP = 400000 // per check per process; beyond that cases are not counted as distinct (lower bound)
const maxSamples = 4

// Stats collects what one check explored inside one test process.
type Stats struct {
	mu          sync.Mutex
	Check       string
	Evaluations int64
	Nontrivial  int64
	Labels      map[string]int64
	Excluded    map[string]int64
	fps         map[uint64]struct{}
	fpOverflow  int64
	Samples     []json.RawMessage
	frozen      bool
	Notes       map[string]string
}

var (
	regMu    sync.Mutex
	registry = map[string]*Stats{}
)

// StatsFor returns the collector of a named check function.
func StatsFor(check string) *Stats {
	regMu.Lock()
	defer regMu.Unlock()
	s := registry[check]
	if s == nil {
		s = &Stats{Check: check, Labels: map[string]int64{}, Excluded: map[string]int64{}, fps: map[uint64]struct{}{}, Notes: map[string]string{}}
		registry[check] = s
	}
	return s
}

// Freeze stops counting (called when a failure was seen: the following calls
// of the property are rapid's shrinking attempts, not generated cases).
func (s *Stats) Freeze() {
	s.mu.Lock()
	s.frozen = true
	s.mu.Unlock()
}

// Frozen reports whether counting stopped.
func (s *Stats) Frozen() bool {
	s.mu.Lock()
	defer s.mu.Unlock()
	return s.frozen
}

// Case records one executed case. canonical is the canonical encoding of the
// case used for the distinctness fingerprint; sample is stored verbatim for
// the first few non-trivial cases.
func (s *Stats) Case(labels []string, nontrivial bool, canonical []byte, sample interface{}) {
	s.mu.Lock()
	defer s.mu.Unlock()
	if s.frozen {
		return
	}
	s.Evaluations++
	for _, l := range labels {
		s.Labels[l]++
	}
	if !nontrivial {
		return
	}
	s.Nontrivial++
	h := sha1.Sum(canonical)
	fp := binary.LittleEndian.Uint64(h[:8])
	if _, ok := s.fps[fp]; !ok {
		if len(s.fps) < maxTrackedFP {
			s.fps[fp] = struct{}{}
		} else {
			s.fpOverflow++
		}
	}
	if len(s.Samples) < maxSamples && sample != nil {
		if b, err := json.Marshal(sample); err == nil && len(b) < 20000 {
			s.Samples = append(s.Samples, b)
		}
	}
}

// Exclude counts a case (or sub-case) that was tolerated because it matches a
// listed known finding.
func (s *Stats) Exclude(finding string) {
	s.mu.Lock()
	if !s.frozen {
		s.Excluded[finding]++
	}
	s.mu.Unlock()
}

// Add increments a label by n without counting a case.
func (s *Stats) Add(label string, n int64) {
	s.mu.Lock()
	if !s.frozen {
		s.Labels[label] += n
	}
	s.mu.Unlock()
}

// Note stores a free-text note for the evidence file.
func (s *Stats) Note(k, v string) {
	s.mu.Lock()
	s.Notes[k] = v
	s.mu.Unlock()
}

type statsOut struct {
	Check       string            `json:"check"`
	Evaluations int64             `json:"evaluations"`
	Nontrivial  int64             `json:"nontrivial"`
	Labels      map[string]int64  `json:"labels"`
	Excluded    map[string]int64  `json:"excluded"`
	FPOverflow  int64             `json:"fp_overflow"`
	FPs         []string          `json:"fps"`
	Samples     []json.RawMessage `json:"samples"`
	Notes       map[string]string `json:"notes"`
}

// WriteStats writes all collectors to the file named by $VERIF_STATS
// (no-op if unset). Call it from TestMain after m.Run().
func WriteStats() {
	path := os.Getenv("VERIF_STATS")
	if path == "" {
		return
	}
	regMu.Lock()
	defer regMu.Unlock()
	var outs []statsOut
	names := make([]string, 0, len(registry))
	for n := range registry {
		names = append(names, n)
	}
	sort.Strings(names)
	for _, n := range names {
		s := registry[n]
		s.mu.Lock()
		o := statsOut{Check: s.Check, Evaluations: s.Evaluations, Nontrivial: s.Nontrivial, Labels: s.Labels,
			Excluded: s.Excluded, FPOverflow: s.fpOverflow, Samples: s.Samples, Notes: s.Notes}
		o.FPs = make([]string, 0, len(s.fps))
		for fp := range s.fps {
			o.FPs = append(o.FPs, fmt.Sprintf("%016x", fp))
		}
		sort.Strings(o.FPs)
		s.mu.Unlock()
		outs = append(outs, o)
	}
	b, _ := json.Marshal(outs)
	os.MkdirAll(filepath.Dir(path), 0755)
	if os.Getenv("VERIF_STATS_PER_PROCESS") != "" {
		// native fuzzing: the coordinator and every worker process report on their own
		path = fmt.Sprintf("%s.%d", path, os.Getpid())
	}
	tmp := path + ".tmp"
	if err := os.WriteFile(tmp, b, 0644); err == nil {
		os.Rename(tmp, path)
	}
}

// Known reports whether a known-finding id is listed as active ("known", not
// "fixed") by the driver through $VERIF_KNOWN (comma separated ids).
func Known(id string) bool {
	for _, k := range strings.Split(os.Getenv("VERIF_KNOWN"), ",") {
		if strings.TrimSpace(k) == id {
			return true
		}
	}
	return false
}

// Tier returns "quick" or "thorough".
func Tier() string {
	if os.Getenv("VERIF_TIER") == "thorough" {
		return "thorough"
	}
	return "quick"
}

// Thorough is a shorthand.
func Thorough() bool { return Tier() == "thorough" }

// WorkDir returns a private scratch directory for database homes.
func WorkDir() string {
	d := os.Getenv("VERIF_DBDIR")
	if d == "" {
		d = filepath.Join(os.TempDir(), fmt.Sprintf("verif-db-%d", os.Getpid()))
	}
	os.MkdirAll(d, 0755)
	return d
}
