package verifkit

import (
	"crypto/sha1"
	"encoding/hex"
	"io"
	"os"
	"path/filepath"
	"sort"
)

// CopyDir copies a directory tree (regular files and directories).
func CopyDir(src, dst string) error {
	return filepath.Walk(src, func(p string, info os.FileInfo, err error) error {
		if err != nil {
			if os.IsNotExist(err) {
				return nil // file vanished between readdir and stat
			}
			return err
		}
		rel, _ := filepath.Rel(src, p)
		target := filepath.Join(dst, rel)
		if info.IsDir() {
			return os.MkdirAll(target, 0755)
		}
		if !info.Mode().IsRegular() {
			return nil
		}
		in, err := os.Open(p)
		if err != nil {
			if os.IsNotExist(err) {
				return nil
			}
			return err
		}
		defer in.Close()
		out, err := os.Create(target)
		if err != nil {
			return err
		}
		_, err = io.Copy(out, in)
		out.Close()
		return err
	})
}

// FileInfo is one entry of a directory inventory.
type FileInfo struct {
	Name string `json:"name"`
	Size int64  `json:"size"`
	SHA1 string `json:"sha1"`
}

// Inventory lists all regular files under dir (relative names, sorted) with size and SHA-1.
func Inventory(dir string) (map[string]FileInfo, error) {
	out := map[string]FileInfo{}
	err := filepath.Walk(dir, func(p string, info os.FileInfo, err error) error {
		if err != nil {
			if os.IsNotExist(err) {
				return nil
			}
			return err
		}
		if !info.Mode().IsRegular() {
			return nil
		}
		b, err := os.ReadFile(p)
		if err != nil {
			if os.IsNotExist(err) {
				return nil
			}
			return err
		}
		h := sha1.Sum(b)
		rel, _ := filepath.Rel(dir, p)
		out[rel] = FileInfo{Name: rel, Size: int64(len(b)), SHA1: hex.EncodeToString(h[:])}
		return nil
	})
	return out, err
}

// SortedNames returns the sorted keys of an inventory.
func SortedNames(inv map[string]FileInfo) []string {
	names := make([]string, 0, len(inv))
	for n := range inv {
		names = append(names, n)
	}
	sort.Strings(names)
	return names
}
