package verifkit

import (
	"encoding/binary"
	"os"
)

// Independent data-file codec (shares no code with store/datafile.go).
// Layout: crc(4) ts(4) flag(4) ver(4) ksz(4) vsz(4) key value pad-to-256; all little endian;
// crc = IEEE CRC-32 over bytes [4, 24+ksz+vsz).

const RecHeader = 24

// ScanRec is one record found in a data file.
type ScanRec struct {
	Offset uint32
	TS     uint32
	Flag   uint32
	Ver    int32
	Key    []byte
	Body   []byte // as stored (possibly server-compressed: Flag&0x10000)
	Size   uint32 // padded size
}

// PaddedSize returns the on-disk size of a record.
func PaddedSize(ksz, vsz int) uint32 {
	n := uint32(RecHeader + ksz + vsz)
	return (n + 255) &^ 255
}

// EncodeRecord returns the padded on-disk bytes of a record.
func EncodeRecord(ts, flag uint32, ver int32, key, body []byte) []byte {
	sz := PaddedSize(len(key), len(body))
	b := make([]byte, sz)
	binary.LittleEndian.PutUint32(b[4:], ts)
	binary.LittleEndian.PutUint32(b[8:], flag)
	binary.LittleEndian.PutUint32(b[12:], uint32(ver))
	binary.LittleEndian.PutUint32(b[16:], uint32(len(key)))
	binary.LittleEndian.PutUint32(b[20:], uint32(len(body)))
	copy(b[24:], key)
	copy(b[24+len(key):], body)
	binary.LittleEndian.PutUint32(b[0:], CRC32(b[4:24+len(key)+len(body)]))
	return b
}

// DecodeAt tries to decode a complete, CRC-valid record at off.
func DecodeAt(data []byte, off uint32, maxKey int, maxVal int64) (rec ScanRec, ok bool) {
	if int64(off)+RecHeader > int64(len(data)) {
		return
	}
	h := data[off:]
	crc := binary.LittleEndian.Uint32(h[0:])
	ksz := binary.LittleEndian.Uint32(h[16:])
	vsz := binary.LittleEndian.Uint32(h[20:])
	if ksz == 0 || int(ksz) > maxKey || int64(vsz) > maxVal {
		return
	}
	end := int64(off) + RecHeader + int64(ksz) + int64(vsz)
	if end > int64(len(data)) {
		return
	}
	if CRC32(data[off+4:end]) != crc {
		return
	}
	rec.Offset = off
	rec.TS = binary.LittleEndian.Uint32(h[4:])
	rec.Flag = binary.LittleEndian.Uint32(h[8:])
	rec.Ver = int32(binary.LittleEndian.Uint32(h[12:]))
	rec.Key = append([]byte(nil), data[off+24:off+24+ksz]...)
	rec.Body = append([]byte(nil), data[off+24+ksz:uint32(end)]...)
	rec.Size = PaddedSize(int(ksz), int(vsz))
	return rec, true
}

// ScanBytes walks a data file image on 256-byte boundaries and returns every
// complete, CRC-valid record (resynchronising after unreadable regions).
// A record must also have its padding inside the file unless it is the last
// thing in the file (a file cut inside the padding still holds all stored bytes).
func ScanBytes(data []byte, maxKey int, maxVal int64) []ScanRec {
	var out []ScanRec
	off := uint32(0)
	for int64(off) < int64(len(data)) {
		rec, ok := DecodeAt(data, off, maxKey, maxVal)
		if ok {
			out = append(out, rec)
			off += rec.Size
		} else {
			off += 256
		}
	}
	return out
}

// ScanFile reads and scans a file; a missing file yields no records.
func ScanFile(path string, maxKey int, maxVal int64) ([]ScanRec, int64, error) {
	b, err := os.ReadFile(path)
	if err != nil {
		if os.IsNotExist(err) {
			return nil, 0, nil
		}
		return nil, 0, err
	}
	return ScanBytes(b, maxKey, maxVal), int64(len(b)), nil
}
