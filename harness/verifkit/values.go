package verifkit

import (
	"encoding/binary"
	"strconv"
)

// ValSpec describes a value deterministically: the bytes are a pure function
// of (Class, Size, Salt). Replay files therefore stay small.
type ValSpec struct {
	Class string `json:"c"`
	Size  int    `json:"n"`
	Salt  uint32 `json:"s"`
}

// Value classes.
var ValueClasses = []string{"const", "periodic", "text", "random", "headrand", "tailrand", "mix",
	"wav", "mp3", "wavlike", "decimal", "midpair", "crlf", "stride"}

// StrideOf returns the slot length of the "stride" class for a salt: distances around the widths of the match
// offset fields of the QuickLZ levels (2^16, 2^17) and a few others.
func StrideOf(salt uint32) int {
	strides := []int{131072, 131071, 131073, 131070, 131074, 65536, 65535, 65537, 262144, 4096, 1000, 131072, 65536}
	return strides[int(salt)%len(strides)]
}

type xorshift struct{ s uint64 }

func newXS(seed uint64) *xorshift {
	if seed == 0 {
		seed = 0x9E3779B97F4A7C15
	}
	return &xorshift{seed}
}
func (x *xorshift) next() uint64 {
	x.s ^= x.s << 13
	x.s ^= x.s >> 7
	x.s ^= x.s << 17
	return x.s
}
func (x *xorshift) fill(b []byte) {
	i := 0
	for ; i+8 <= len(b); i += 8 {
		binary.LittleEndian.PutUint64(b[i:], x.next())
	}
	if i < len(b) {
		var t [8]byte
		binary.LittleEndian.PutUint64(t[:], x.next())
		copy(b[i:], t[:])
	}
}

var words = []string{"the", "quick", "brown", "fox", "jumps", "over", "lazy", "dog", "beansdb", "key", "value",
	"store", "hint", "merkle", "tree", "bucket", "record", "flush", "and", "of", "to", "in", "a", "is", "that",
	"compaction", "garbage", "collector", "version", "hash", "\n", ", ", ". "}

func fillText(b []byte, x *xorshift) {
	i := 0
	for i < len(b) {
		w := words[x.next()%uint64(len(words))]
		n := copy(b[i:], w)
		i += n
		if i < len(b) {
			b[i] = ' '
			i++
		}
	}
}

// Expand returns the bytes of a value.
func (v ValSpec) Expand() []byte {
	n := v.Size
	if n < 0 {
		n = 0
	}
	x := newXS(uint64(v.Salt)*0x100000001B3 + uint64(len(v.Class))*7919 + 1)
	switch v.Class {
	case "decimal":
		// ignores Size: a decimal number derived from the salt (may be negative)
		num := int64(v.Salt % 2000000)
		if v.Salt&1 == 1 {
			num = -num
		}
		if v.Salt%13 == 0 {
			num = int64(v.Salt) * 1000003
		}
		return []byte(strconv.FormatInt(num, 10))
	}
	b := make([]byte, n)
	switch v.Class {
	case "const":
		c := byte(v.Salt)
		for i := range b {
			b[i] = c
		}
	case "periodic":
		p := int(v.Salt%17) + 2
		pat := make([]byte, p)
		x.fill(pat)
		for i := range b {
			b[i] = pat[i%p]
		}
	case "text":
		fillText(b, x)
	case "random":
		x.fill(b)
	case "headrand": // incompressible head, compressible tail
		cut := n * int(v.Salt%9+1) / 10
		x.fill(b[:cut])
		fillText(b[cut:], x)
	case "tailrand": // compressible head, incompressible tail
		cut := n * int(v.Salt%9+1) / 10
		fillText(b[:cut], x)
		x.fill(b[cut:])
	case "mix": // interleaved blocks; the random share (salt%10)/10 steers the ratio around 0.7
		share := int(v.Salt % 11)
		for off := 0; off < n; off += 64 {
			end := off + 64
			if end > n {
				end = n
			}
			if int(x.next()%10) < share {
				x.fill(b[off:end])
			} else {
				fillText(b[off:end], x)
			}
		}
	case "wav":
		fillText(b, x)
		copy(b, "RIFF\x24\x08\x00\x00WAVEfmt ")
	case "wavlike":
		fillText(b, x)
		copy(b, "RIFF\x24\x08\x00\x00WAVXfmt ")
	case "mp3":
		fillText(b, x)
		copy(b, "ID3\x03\x00\x00\x00\x00\x0f\x76")
	case "midpair":
		// head and tail (512 bytes each) depend on Size only, the middle on Salt:
		// two such values of equal Size > 1024 share their 16-bit value hash.
		fix := newXS(uint64(n)*31 + 5)
		fillText(b, fix)
		if n > 1024 {
			x.fill(b[512 : n-512])
		}
	case "stride":
		// slots of StrideOf(salt) bytes, each starting with the same short pseudo-random header followed by a run of one
		// byte: the only match for a header is the previous slot's, exactly one stride back
		st := StrideOf(v.Salt)
		hdr := make([]byte, 3+int(v.Salt/13)%62)
		x.fill(hdr)
		fillc := byte(' ')
		if v.Salt%2 == 1 {
			fillc = 0
		}
		for i := range b {
			if i%st < len(hdr) {
				b[i] = hdr[i%st]
			} else {
				b[i] = fillc
			}
		}
	case "crlf":
		pat := []byte("\r\nEND\r\n\x00VALUE x 0 1\r\nSTORED\r\n")
		for i := range b {
			b[i] = pat[(i+int(v.Salt))%len(pat)]
		}
	default:
		x.fill(b)
	}
	return b
}
