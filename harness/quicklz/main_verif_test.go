package quicklz

import (
	"encoding/json"
	"fmt"
	"os"
	"testing"

	"github.com/douban/gobeansdb/verifkit"
)

var replayers = map[string]func(raw json.RawMessage) error{}

func TestMain(m *testing.M) {
	if os.Getenv("VERIF_CHILD") != "" {
		os.Exit(childMain())
	}
	rc := m.Run()
	verifkit.WriteStats()
	os.Exit(rc)
}

func TestVerifReplay(t *testing.T) {
	path := os.Getenv("VERIF_REPLAY")
	if path == "" {
		t.Skip("VERIF_REPLAY not set")
	}
	ff, err := verifkit.LoadFail(path)
	if err != nil {
		t.Fatalf("cannot load %s: %v", path, err)
	}
	f := replayers[ff.Check]
	if f == nil {
		t.Fatalf("no replayer for check %q", ff.Check)
	}
	if err := f(ff.Case); err != nil {
		t.Fatalf("replay of %s fails: %v", ff.Check, err)
	}
	fmt.Println("replay ok:", ff.Check)
}
