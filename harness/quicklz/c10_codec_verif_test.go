package quicklz

// C10 (codec level): the C and Go QuickLZ implementations decompress each other's output to the original,
// and the safe entry points return an error for arbitrary bytes instead of crashing.

import (
	"bufio"
	"bytes"
	"encoding/base64"
	"encoding/binary"
	"encoding/json"
	"fmt"
	"os"
	"os/exec"
	"strconv"
	"strings"
	"testing"

	"github.com/douban/gobeansdb/config"
	"github.com/douban/gobeansdb/verifkit"
	"pgregory.net/rapid"
)

type codecCase struct {
	V     verifkit.ValSpec `json:"v"`
	Raw   []byte           `json:"raw,omitempty"` // if set, used instead of V
	Level int              `json:"level"`         // Go compressor level 1 or 3
}

func (c *codecCase) data() []byte {
	if c.Raw != nil {
		return c.Raw
	}
	return c.V.Expand()
}

func setBodyInC(n int64) {
	mc := config.DefaultMCConfig
	mc.BodyMax = 50 << 20
	mc.BodyInC = n
	mc.BodyBig = 1 << 20
	config.MCConf = mc
}

func codecRun(c *codecCase) (err error) {
	defer func() {
		if e := recover(); e != nil {
			err = fmt.Errorf("panic: %v", e)
		}
	}()
	src := c.data()
	if len(src) == 0 {
		return nil // CCompress requires a non-empty input (callers never pass one since the fix of C01-empty-value-long-key)
	}
	// C compress -> Go decompress, C decompress (safe and unsafe wrappers)
	cc, ok := CCompress(src)
	if !ok {
		return fmt.Errorf("CCompress failed (allocation)")
	}
	comp := append([]byte(nil), cc.Body...)
	cc.Free()
	if SizeCompressed(comp) != len(comp) {
		return fmt.Errorf("CCompress: header says %d compressed bytes, output has %d", SizeCompressed(comp), len(comp))
	}
	if SizeDecompressed(comp) != len(src) {
		return fmt.Errorf("CCompress: header says %d decompressed bytes, input had %d", SizeDecompressed(comp), len(src))
	}
	if got := Decompress(comp); !bytes.Equal(got, src) {
		return fmt.Errorf("Go Decompress of C-compressed data differs from the original (len %d vs %d)", len(got), len(src))
	}
	if got, err := DecompressSafe(comp); err != nil || !bytes.Equal(got, src) {
		return fmt.Errorf("DecompressSafe of C-compressed data: err %v, equal %v", err, bytes.Equal(got, src))
	}
	arr, err := CDecompressSafe(comp)
	if err != nil {
		return fmt.Errorf("CDecompressSafe of C-compressed data: %v", err)
	}
	if !bytes.Equal(arr.Body, src) {
		arr.Free()
		return fmt.Errorf("CDecompressSafe of C-compressed data differs from the original")
	}
	arr.Free()
	// Go compress -> Go decompress at the level the case asks for
	level := c.Level
	if level != 1 && level != 3 {
		level = 3
	}
	g1 := Compress(src, level)
	if got, err := DecompressSafe(g1); err != nil || !bytes.Equal(got, src) {
		return fmt.Errorf("DecompressSafe of Go-compressed (level %d) data: err %v", level, err)
	}
	// Go compress -> C decompress: the C library is built for level 3 only (QLZ_COMPRESSION_LEVEL 3; a QuickLZ
	// decoder handles the level it was compiled for), and level 3 is what the store writes
	level = 3
	gc := Compress(src, level)
	if SizeCompressed(gc) != len(gc) || SizeDecompressed(gc) != len(src) {
		return fmt.Errorf("Go Compress(level %d): header sizes (%d,%d) do not match (%d,%d)", level, SizeCompressed(gc), SizeDecompressed(gc), len(gc), len(src))
	}
	arr, err = CDecompressSafe(gc)
	if err != nil || !bytes.Equal(arr.Body, src) {
		return fmt.Errorf("CDecompressSafe of Go-compressed (level %d) data: err %v", level, err)
	}
	arr.Free()
	if got, err := DecompressSafe(gc); err != nil || !bytes.Equal(got, src) {
		return fmt.Errorf("DecompressSafe of Go-compressed (level %d) data: err %v", level, err)
	}
	return nil
}

func codecGen(t *rapid.T) *codecCase {
	c := &codecCase{Level: rapid.SampledFrom([]int{1, 3}).Draw(t, "level")}
	if rapid.IntRange(0, 4).Draw(t, "rawmode") == 0 {
		c.Raw = rapid.SliceOfN(rapid.Byte(), 1, 600).Draw(t, "raw")
		return c
	}
	c.V.Class = rapid.SampledFrom([]string{"const", "periodic", "text", "random", "headrand", "tailrand", "mix", "crlf", "midpair"}).Draw(t, "class")
	max := 40000
	if verifkit.Thorough() {
		max = 3 << 20
	}
	switch rapid.IntRange(0, 6).Draw(t, "sizeclass") {
	case 0:
		c.V.Size = rapid.IntRange(1, 20).Draw(t, "size")
	case 1:
		c.V.Size = rapid.IntRange(200, 300).Draw(t, "size")
	case 2:
		c.V.Size = 10240 + rapid.IntRange(-5, 5).Draw(t, "d")
	case 3:
		c.V.Size = rapid.IntRange(1, 5000).Draw(t, "size")
	case 4:
		c.V.Size = rapid.IntRange(1, max).Draw(t, "size")
	case 5: // around 2^16 (match offset width) and the streaming/hash table sizes
		c.V.Size = rapid.SampledFrom([]int{4095, 4096, 4097, 65535, 65536, 65537, 131072}).Draw(t, "size")
		if c.V.Size > max {
			c.V.Size = max
		}
	default:
		c.V.Size = rapid.IntRange(215, 225).Draw(t, "size") // 3-byte vs 9-byte header boundary (216)
	}
	c.V.Salt = rapid.Uint32Range(0, 60).Draw(t, "salt")
	if rapid.IntRange(0, 11).Draw(t, "farmatch") == 0 {
		// repetitions whose only match lies exactly one stride back (strides around 2^16 / 2^17: the widths of the match
		// offset fields), 2-3 slots plus a bit
		c.V.Class = "stride"
		c.V.Salt = rapid.Uint32Range(0, 800).Draw(t, "stridesalt")
		c.V.Size = verifkit.StrideOf(c.V.Salt)*rapid.IntRange(2, 3).Draw(t, "slots") + rapid.IntRange(0, 300).Draw(t, "extra")
	}
	return c
}

func TestVerif_C10_Codec(t *testing.T) {
	st := verifkit.StatsFor("TestVerif_C10_Codec")
	rapid.Check(t, func(t *rapid.T) {
		c := codecGen(t)
		setBodyInC(rapid.SampledFrom([]int64{0, 4096}).Draw(t, "bodyinc"))
		err := codecRun(c)
		src := c.data()
		var labels []string
		compressible := false
		if len(src) > 0 {
			compressible = len(Compress(src, 3)) < len(src)
		}
		if compressible {
			labels = append(labels, "compressible")
		} else {
			labels = append(labels, "incompressible")
		}
		if len(src) > 10240 {
			labels = append(labels, ">10K")
		}
		if len(src) > 65536 {
			labels = append(labels, ">64K")
		}
		if c.V.Class == "stride" && c.Raw == nil {
			labels = append(labels, "far_match")
		}
		sample := map[string]interface{}{"class": c.V.Class, "size": len(src), "salt": c.V.Salt, "level": c.Level}
		st.Case(labels, err == nil && compressible && len(src) > 216, src, sample)
		if err != nil {
			verifkit.Fail("C10", "TestVerif_C10_Codec", c, err.Error())
			t.Fatalf("%v", err)
		}
	})
}

// ---------------------------------------------------------------------------
// safe entry points on hostile bytes, in child processes (a C-side wild write cannot be recovered in-process)

type hostileCase struct {
	Input []byte `json:"input"`
}

// mutate builds a hostile stream from a valid compressed one.
func genHostile(t *rapid.T) []byte {
	mode := rapid.IntRange(0, 5).Draw(t, "mode")
	if mode == 0 {
		return rapid.SliceOfN(rapid.Byte(), 0, 300).Draw(t, "raw")
	}
	v := verifkit.ValSpec{Class: rapid.SampledFrom([]string{"text", "periodic", "const", "mix", "random"}).Draw(t, "class"),
		Size: rapid.IntRange(1, 3000).Draw(t, "size"), Salt: rapid.Uint32Range(0, 30).Draw(t, "salt")}
	src := v.Expand()
	b := Compress(src, rapid.SampledFrom([]int{1, 3}).Draw(t, "level"))
	hl := 3
	if b[0]&2 == 2 {
		hl = 9
	}
	switch mode {
	case 1: // lie about the decompressed size (header), keeping the compressed size consistent
		fake := rapid.SampledFrom([]int{0, 1, len(src) - 1, len(src) + 1, len(src) * 2, 1 << 20, 1 << 24}).Draw(t, "fake")
		if hl == 9 {
			binary.LittleEndian.PutUint32(b[5:], uint32(fake))
		} else {
			b[2] = byte(fake)
		}
	case 2: // flip bits in control words / match offsets
		n := rapid.IntRange(1, 6).Draw(t, "nflip")
		for i := 0; i < n; i++ {
			p := rapid.IntRange(hl, len(b)-1).Draw(t, "pos")
			b[p] ^= byte(1 << uint(rapid.IntRange(0, 7).Draw(t, "bit")))
		}
	case 3: // truncate, fixing the compressed size so that the size check passes
		cut := rapid.IntRange(hl, len(b)).Draw(t, "cut")
		b = b[:cut]
		if hl == 9 {
			binary.LittleEndian.PutUint32(b[1:], uint32(len(b)))
		} else {
			b[1] = byte(len(b))
		}
	case 4: // overwrite a run with 0xff / 0x00 (long matches, far offsets)
		p := rapid.IntRange(hl, len(b)-1).Draw(t, "pos")
		n := rapid.IntRange(1, 12).Draw(t, "n")
		x := byte(rapid.SampledFrom([]int{0, 0xff, 0x80, 1}).Draw(t, "x"))
		for i := p; i < p+n && i < len(b); i++ {
			b[i] = x
		}
	default: // flip header flag bits (compressed/uncompressed, level, header length)
		b[0] ^= byte(rapid.IntRange(1, 255).Draw(t, "hflip"))
		if len(b) > 9 && rapid.Bool().Draw(t, "fixsize") {
			if b[0]&2 == 2 {
				binary.LittleEndian.PutUint32(b[1:], uint32(len(b)))
			} else {
				b[1] = byte(len(b))
			}
		}
	}
	return b
}

// runHostile feeds one input to both safe entry points; any outcome but a crash is fine.
func runHostile(in []byte) {
	setBodyInC(0)
	if len(in) < 9 {
		// the size accessors index the header unconditionally; the safe wrappers recover from that
	}
	DecompressSafe(in)
	arr, err := CDecompressSafe(in)
	if err == nil {
		arr.Free()
	}
}

func childMain() int {
	switch os.Getenv("VERIF_CHILD") {
	case "hostile":
		// reads base64 inputs line by line, prints "ok <n>" after each
		sc := bufio.NewScanner(os.Stdin)
		sc.Buffer(make([]byte, 1<<20), 64<<20)
		n := 0
		for sc.Scan() {
			in, err := base64.StdEncoding.DecodeString(sc.Text())
			if err != nil {
				return 98
			}
			runHostile(in)
			n++
			fmt.Printf("ok %d\n", n)
		}
		return 0
	}
	return 97
}

// runHostileBatch runs the inputs in a child process; returns the index of the input that killed the child, or -1.
func runHostileBatch(inputs [][]byte) (int, string, error) {
	bin := os.Args[0]
	cmd := exec.Command(bin)
	cmd.Env = append(os.Environ(), "VERIF_CHILD=hostile", "VERIF_STATS=", "ASAN_OPTIONS=detect_leaks=0:abort_on_error=0")
	var in bytes.Buffer
	for _, x := range inputs {
		in.WriteString(base64.StdEncoding.EncodeToString(x))
		in.WriteByte('\n')
	}
	cmd.Stdin = &in
	var out, errb bytes.Buffer
	cmd.Stdout = &out
	cmd.Stderr = &errb
	err := cmd.Run()
	done := 0
	for _, l := range strings.Split(out.String(), "\n") {
		if strings.HasPrefix(l, "ok ") {
			done, _ = strconv.Atoi(l[3:])
		}
	}
	if err == nil && done == len(inputs) {
		return -1, "", nil
	}
	if done >= len(inputs) {
		return -1, "", fmt.Errorf("child failed after all inputs: %v %s", err, tail(errb.String(), 600))
	}
	report := errb.String()
	if i := strings.Index(report, "ERROR: AddressSanitizer"); i >= 0 {
		report = report[i:]
		if len(report) > 1800 {
			report = report[:1800]
		}
	} else {
		report = tail(report, 1500)
	}
	return done, fmt.Sprintf("%v: %s", err, report), nil
}

func tail(s string, n int) string {
	if len(s) > n {
		return s[len(s)-n:]
	}
	return s
}

func TestVerif_C10_Hostile(t *testing.T) {
	st := verifkit.StatsFor("TestVerif_C10_Hostile")
	rapid.Check(t, func(t *rapid.T) {
		n := 200
		inputs := make([][]byte, 0, n)
		for i := 0; i < n; i++ {
			inputs = append(inputs, genHostile(t))
		}
		idx, msg, err := runHostileBatch(inputs)
		if err != nil {
			t.Fatalf("INFRA: %v", err)
		}
		for i, in := range inputs {
			if idx >= 0 && i > idx {
				break
			}
			mutated := true
			st.Case([]string{"hostile"}, mutated, in, map[string]interface{}{"len": len(in), "head": in[:min(len(in), 24)]})
		}
		if idx >= 0 {
			// confirm with the single input in a fresh child
			i2, msg2, _ := runHostileBatch([][]byte{inputs[idx]})
			if i2 == 0 {
				c := &hostileCase{Input: inputs[idx]}
				verifkit.Fail("C10", "TestVerif_C10_Hostile", c, "the process decompressing this input through the safe entry points died: "+msg2)
				t.Fatalf("child died on input %d: %s", idx, msg2)
			}
			t.Fatalf("INFRA: child died in a batch (%s) but not on the single input", msg)
		}
	})
}

func min(a, b int) int {
	if a < b {
		return a
	}
	return b
}

func init() {
	replayers["TestVerif_C10_Codec"] = func(raw json.RawMessage) error {
		c := &codecCase{}
		if err := json.Unmarshal(raw, c); err != nil {
			return err
		}
		setBodyInC(0)
		return codecRun(c)
	}
	replayers["FuzzVerif_C10_Decompress"] = func(raw json.RawMessage) error {
		c := &hostileCase{}
		if err := json.Unmarshal(raw, c); err != nil {
			return err
		}
		idx, msg, err := runHostileBatch([][]byte{c.Input})
		if err != nil {
			return nil
		}
		if idx >= 0 {
			return fmt.Errorf("the process decompressing this input through the safe entry points died: %s", msg)
		}
		return nil
	}
	replayers["TestVerif_C10_Hostile"] = func(raw json.RawMessage) error {
		c := &hostileCase{}
		if err := json.Unmarshal(raw, c); err != nil {
			return err
		}
		idx, msg, err := runHostileBatch([][]byte{c.Input})
		if err != nil {
			return nil
		}
		if idx >= 0 {
			return fmt.Errorf("the process decompressing this input through the safe entry points died: %s", msg)
		}
		return nil
	}
}
