package quicklz

import (
	"testing"

	"github.com/douban/gobeansdb/verifkit"
)

// Native fuzz target (thorough tier): arbitrary bytes through both safe decompressors, in-process (the C library is
// built memory-safe since the C10 repair; a crash of the fuzz worker is reported by the fuzzing engine with its input).
func FuzzVerif_C10_Decompress(f *testing.F) {
	st := verifkit.StatsFor("FuzzVerif_C10_Decompress")
	f.Add([]byte{})
	f.Add(Compress([]byte("hello hello hello hello hello hello hello"), 3))
	f.Add(Compress([]byte("abcabcabcabcabcabcabcabcabcabcabcabcabcabcabcabcabcabcabcabcabcabc"), 1))
	big := make([]byte, 3000)
	for i := range big {
		big[i] = byte(i % 7)
	}
	f.Add(Compress(big, 3))
	f.Fuzz(func(t *testing.T, data []byte) {
		if len(data) > 1<<16 {
			data = data[:1<<16]
		}
		// refuse absurd size claims up front: the safe wrappers allocate the claimed size
		if len(data) >= 9 && data[0]&2 == 2 && (SizeDecompressed(data) > 1<<24 || SizeDecompressed(data) < 0) {
			t.Skip()
		}
		runHostile(data)
		st.Case([]string{"fuzz_input"}, len(data) > 9, data, map[string]interface{}{"len": len(data), "head": data[:min(len(data), 24)]})
	})
}
