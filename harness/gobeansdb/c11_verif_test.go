package gobeansdb

// C11: one well-formed reply per command, binary-safe, never wedged.
// C12: request tokens and buffer accounting return to zero at quiescence.
// C01 (protocol front end): replies equal the reference model.

import (
	"encoding/json"
	"fmt"
	"sort"
	"strconv"
	"strings"
	"sync"
	"testing"
	"time"

	"github.com/douban/gobeansdb/cmem"
	"github.com/douban/gobeansdb/store"
	"github.com/douban/gobeansdb/verifkit"
	"pgregory.net/rapid"
)

type ProtoCase struct {
	Cfg   ProtoCfg     `json:"cfg"`
	Conns []connScript `json:"conns"`
	// EnumDrop (C12): after the scripts, this command is cut at EVERY byte offset, each time on a fresh connection
	// that is then closed by the client
	EnumDrop *Cmd `json:"enumdrop,omitempty"`
}

type protoOpts struct {
	property   string
	check      string
	counters   bool // C12 oracle
	concurrent bool // run the connections concurrently
	listing    bool // C01/C08: compare 'get @<prefix>' with the recomputation from the model (single connection)
}

// runProto executes a case; returns labels.
func runProto(pc *ProtoCase, o protoOpts) (labels map[string]bool, excluded map[string]int, err error) {
	labels = map[string]bool{}
	excluded = map[string]int{}
	defer func() {
		if e := recover(); e != nil {
			err = panicToError(e)
		}
	}()
	theHub.take()
	srv, e := startServer(pc.Cfg)
	if e != nil {
		return labels, excluded, infraf("%v", e)
	}
	defer srv.stop()
	models := make([]*pmodel, len(pc.Conns))
	conns := make([]*scriptConn, len(pc.Conns))
	for i := range pc.Conns {
		models[i] = newPModel(pc.Cfg.CheckVHash)
		conns[i] = srv.connect(fmt.Sprintf("client%d", i))
	}
	errs := make([]error, len(pc.Conns))
	if o.counters && len(pc.Conns) == 1 {
		pc.Conns[0].midCheck = true
	}
	if o.concurrent && len(pc.Conns) > 1 {
		var wg sync.WaitGroup
		var mu sync.Mutex
		for i := range pc.Conns {
			wg.Add(1)
			go func(i int) {
				defer wg.Done()
				l := map[string]bool{}
				errs[i] = runScript(srv, conns[i], &pc.Conns[i], models[i], l)
				mu.Lock()
				for k := range l {
					labels[k] = true
				}
				mu.Unlock()
			}(i)
		}
		wg.Wait()
		labels["concurrent_conns"] = true
	} else {
		for i := range pc.Conns {
			errs[i] = runScript(srv, conns[i], &pc.Conns[i], models[i], labels)
		}
	}
	for i, e := range errs {
		if e != nil {
			for _, c := range conns {
				c.CloseInput()
			}
			srv.waitConns(5 * time.Second)
			if isInfra(e) {
				return labels, excluded, e
			}
			return labels, excluded, fmt.Errorf("connection %d: %v", i, e)
		}
	}
	// all inputs are closed: every connection goroutine must end (orderly close), none may have panicked
	if e := srv.waitConns(idleNet); e != nil {
		return labels, excluded, e
	}
	lines := theHub.take()
	if pl := panicLines(lines); len(pl) > 0 {
		return labels, excluded, fmt.Errorf("the server recovered from a panic while serving: %s", pl[0])
	}
	if o.listing && len(models) == 1 {
		if e := checkListings(srv, models[0], labels); e != nil {
			return labels, excluded, e
		}
	}
	if pc.EnumDrop != nil {
		b := pc.EnumDrop.render()
		for cut := 0; cut <= len(b); cut++ {
			c := srv.connect(fmt.Sprintf("drop%d", cut))
			c.Feed(b[:cut])
			if _, e := c.WaitIdle(idleNet); e != nil {
				return labels, excluded, fmt.Errorf("command cut at byte %d of %d (%s): %v", cut, len(b), describe(pc.EnumDrop), e)
			}
			c.CloseInput()
			if e := srv.waitConns(idleNet); e != nil {
				return labels, excluded, fmt.Errorf("command cut at byte %d of %d (%s): %v", cut, len(b), describe(pc.EnumDrop), e)
			}
			c.TakeOutput()
		}
		labels["drop_enumerated"] = true
		if pl := panicLines(theHub.take()); len(pl) > 0 {
			return labels, excluded, fmt.Errorf("the server recovered from a panic while a command was cut off: %s", pl[0])
		}
	}
	if o.counters {
		if e := waitRotationFlushes(); e != nil {
			return labels, excluded, e
		}
		srv.hstore.VerifFlush(true)
		if msg := counters(); msg != "" {
			// known per-command leaks: tolerated only if the residue is exactly what the executed commands of the
			// listed leaking classes account for
			residue := expectedLeak(pc, excluded)
			if residue == nil || !residue.matches() {
				return labels, excluded, fmt.Errorf("accounting not zero at quiescence: %s", msg)
			}
			labels["known_leak_tolerated"] = true
		}
		// a second, fault-free workload must leave the counters where they are (no opposite error masks a leak)
		before := counters()
		c := srv.connect("second")
		m := newPModel(pc.Cfg.CheckVHash)
		size := 5000
		if int64(size) > pc.Cfg.BodyBig {
			size = int(pc.Cfg.BodyBig) // never refused for memory shortage, never oversize
		}
		if int64(size) > pc.Cfg.BodyMax {
			size = int(pc.Cfg.BodyMax)
		}
		second := &connScript{Cmds: []Cmd{
			{Verb: "set", Keys: [][]byte{[]byte("second-workload-key")}, V: verifkit.ValSpec{Class: "text", Size: size, Salt: 1}},
			{Verb: "get", Keys: [][]byte{[]byte("second-workload-key")}},
			{Verb: "delete", Keys: [][]byte{[]byte("second-workload-key")}},
			{Verb: "get", Keys: [][]byte{[]byte("second-workload-key")}},
		}}
		if e := runScript(srv, c, second, m, map[string]bool{}); e != nil {
			return labels, excluded, fmt.Errorf("second workload: %v", e)
		}
		if e := srv.waitConns(idleNet); e != nil {
			return labels, excluded, e
		}
		if e := waitRotationFlushes(); e != nil {
			return labels, excluded, e
		}
		srv.hstore.VerifFlush(true)
		if after := counters(); after != before {
			return labels, excluded, fmt.Errorf("accounting changed by a fault-free workload: before %q after %q", before, after)
		}
	}
	return labels, excluded, nil
}

// checkListings compares the directory listings served over the protocol with the recomputation from the model.
func checkListings(srv *testServer, m *pmodel, labels map[string]bool) error {
	cfg := &srv.cfg
	depth := 0
	if cfg.NumBucket == 16 {
		depth = 1
	}
	trees := map[int]*verifkit.RefTree{}
	tombs := map[int]map[uint64]bool{}
	for b := 0; b < cfg.NumBucket; b++ {
		if servedKey(cfg, nil) || cfg.Served == nil || containsInt(cfg.Served, b) {
			trees[b] = &verifkit.RefTree{Depth: depth, Height: cfg.TreeHeight, Items: map[uint64]verifkit.RefItem{}}
			tombs[b] = map[uint64]bool{}
		}
	}
	for ks, p := range m.keys {
		k := []byte(ks)
		if !validKey(k) || p.state == 0 {
			continue
		}
		h := verifkit.KeyHash(k)
		b := 0
		if depth > 0 {
			b = int(h >> 60)
		}
		t := trees[b]
		if t == nil {
			continue
		}
		switch p.state {
		case 1:
			if p.ver == 0 {
				return nil // a version the model does not know: no exact listing expectation for this case
			}
			t.Items[h] = verifkit.RefItem{Ver: p.ver, Vhash: verifkit.Vhash(p.val)}
		case 2:
			tombs[b][h] = true
		default:
			return nil
		}
	}
	conn := srv.connect("lister")
	defer conn.CloseInput()
	list := func(prefix []int) ([]byte, error) {
		key := "@" + verifkit.PrefixString(prefix)
		conn.Feed([]byte("get " + key + "\r\n"))
		if _, err := conn.WaitIdle(idleNet); err != nil {
			return nil, err
		}
		out := conn.TakeOutput()
		// VALUE @<p> 0 <n>\r\n<body>\r\nEND\r\n
		l, rest, ok := readLine(out)
		if !ok {
			return nil, fmt.Errorf("no reply to get %s", key)
		}
		if l == "END" {
			return []byte{}, nil
		}
		f := strings.Split(l, " ")
		if len(f) != 4 || f[0] != "VALUE" || f[1] != key {
			return nil, fmt.Errorf("malformed reply to get %s: %q", key, l)
		}
		n, err := strconv.Atoi(f[3])
		if err != nil || n < 0 || len(rest) < n+7 {
			return nil, fmt.Errorf("malformed reply to get %s: %q", key, l)
		}
		return rest[:n], nil
	}
	for b, t := range trees {
		bp := []int{}
		if depth == 1 {
			bp = []int{b}
		}
		prefixes := [][]int{bp}
		n := 0
		for h := range t.Items {
			if n >= 3 {
				break
			}
			n++
			full := make([]int, 16)
			for i := range full {
				full[i] = verifkit.HexDigit(h, i)
			}
			for l := depth + 1; l <= 16; l += 3 {
				prefixes = append(prefixes, full[:l])
			}
			prefixes = append(prefixes, full)
		}
		for _, p := range prefixes {
			got, err := list(p)
			if err != nil {
				return err
			}
			if err := verifkit.CompareListing(t, p, got, tombs[b]); err != nil {
				return fmt.Errorf("listing over the protocol, bucket %x: %v", b, err)
			}
		}
	}
	if depth == 1 {
		got, err := list([]int{})
		if err != nil {
			return err
		}
		want := ""
		for i := 0; i < 16; i++ {
			var hash uint16
			var cnt uint32
			if t := trees[i]; t != nil {
				hash, cnt = t.NodeHash([]int{i}), t.Count([]int{i})
			}
			want += fmt.Sprintf("%x/ %d %d\n", i, hash, int(cnt))
		}
		if string(got) != want {
			return fmt.Errorf("top-level listing over the protocol differs from the aggregate of the served bucket roots:\ngot  %q\nwant %q", got, want)
		}
		labels["listed_upper"] = true
	}
	labels["listed_over_protocol"] = true
	return nil
}

func containsInt(a []int, x int) bool {
	for _, v := range a {
		if v == x {
			return true
		}
	}
	return false
}

// leakResidue is filled by expectedLeak when known per-command leak findings are active.
type leakResidue struct {
	getCount, getSize, setCount, setSize int64
}

func (l *leakResidue) matches() bool {
	d := &cmem.DBRL
	return d.GetData.Count == l.getCount && d.GetData.Size == l.getSize && d.SetData.Count == l.setCount && d.SetData.Size == l.setSize &&
		d.FlushData.Count == 0 && d.FlushData.Size == 0 && d.AllocRL.Count == 0 && d.AllocRL.Size == 0
}

// expectedLeak: no per-command leak finding is listed as known at present (they were repaired): nothing is tolerated.
func expectedLeak(pc *ProtoCase, excluded map[string]int) *leakResidue {
	return nil
}

// ---------------------------------------------------------------------------
// generators

func genProtoCfg(t *rapid.T) ProtoCfg {
	c := ProtoCfg{}
	c.NumBucket = rapid.SampledFrom([]int{1, 1, 1, 16}).Draw(t, "nb")
	c.TreeHeight = rapid.IntRange(2, 3).Draw(t, "th")
	c.MaxReq = rapid.SampledFrom([]int{1, 2, 16}).Draw(t, "maxreq")
	c.BodyMax = rapid.SampledFrom([]int64{300, 5000, 70000}).Draw(t, "bodymax")
	c.BodyInC = rapid.SampledFrom([]int64{0, 64, 4096}).Draw(t, "bodyinc")
	c.BodyBig = rapid.SampledFrom([]int64{100, 1 << 20}).Draw(t, "bodybig")
	c.FlushMax = rapid.SampledFrom([]int64{0, 200, 100 << 20}).Draw(t, "flushmax")
	c.DataFile = rapid.SampledFrom([]int64{128 << 10, 4000 << 20}).Draw(t, "dfm")
	if c.NumBucket == 16 && rapid.Bool().Draw(t, "partial") {
		c.Served = []int{}
		for b := 0; b < 16; b++ {
			if rapid.IntRange(0, 3).Draw(t, "serve") > 0 {
				c.Served = append(c.Served, b)
			}
		}
	}
	return c
}

var protoKeyChars = []byte("abcdefghijklmnopqrstuvwxyzABCDEFGHIJKLMNOPQRSTUVWXYZ0123456789_-./:;,=+%#&*()[]{}<>|~!$^'\"\\`?@")

// genProtoKey draws a key usable on a command line (no space/CR/LF): mostly valid ones from a small pool
// (prefix keeps connections disjoint), sometimes invalid or special ones.
func genProtoKey(t *rapid.T, prefix string, special bool) []byte {
	switch x := rapid.IntRange(0, 19).Draw(t, "keyclass"); {
	case x <= 11:
		return []byte(fmt.Sprintf("%sk%d", prefix, rapid.IntRange(0, 5).Draw(t, "kn")))
	case x == 12: // 250 bytes
		b := []byte(prefix + "L")
		for len(b) < 250 {
			b = append(b, 'x')
		}
		return b
	case x == 13: // too long
		n := rapid.SampledFrom([]int{251, 252, 300, 5000}).Draw(t, "toolong")
		b := []byte(prefix + "T")
		for len(b) < n {
			b = append(b, 'y')
		}
		return b
	case x == 14: // control character / NUL / tab / high bytes inside
		return append([]byte(prefix+"c"), byte(rapid.SampledFrom([]int{0, 1, 9, 11, 27, 127, 0x85, 0xa0, 0xff}).Draw(t, "ctl")), 'z')
	case x == 15: // UTF-8
		return []byte(prefix + "键值αβ")
	case x >= 16 && special:
		// special keys: directory listings, record by hash, meta
		switch rapid.IntRange(0, 7).Draw(t, "special") {
		case 0:
			n := rapid.IntRange(0, 20).Draw(t, "hexlen")
			s := "@"
			for i := 0; i < n; i++ {
				s += string("0123456789abcdefABCDEF"[rapid.IntRange(0, 21).Draw(t, "hex")])
			}
			return []byte(s)
		case 1:
			return []byte("@" + rapid.StringMatching(`[g-z@?/]{1,18}`).Draw(t, "nonhex"))
		case 2:
			n := rapid.SampledFrom([]int{0, 1, 15, 16, 16, 16, 17, 32}).Draw(t, "hlen")
			s := "@@"
			for i := 0; i < n; i++ {
				s += string("0123456789abcdefxyz"[rapid.IntRange(0, 18).Draw(t, "hex")])
			}
			return []byte(s)
		case 3:
			return []byte("@collision_" + rapid.StringMatching(`[a-z_0-9]{0,8}`).Draw(t, "coll"))
		case 4:
			return []byte("?")
		case 5:
			return []byte("??")
		case 6:
			return append([]byte("??"), []byte(fmt.Sprintf("%sk%d", prefix, rapid.IntRange(0, 5).Draw(t, "kn")))...)
		default:
			return append([]byte("?"), []byte(fmt.Sprintf("%sk%d", prefix, rapid.IntRange(0, 5).Draw(t, "kn")))...)
		}
	default:
		n := rapid.IntRange(1, 30).Draw(t, "klen")
		b := []byte(prefix)
		for i := 0; i < n; i++ {
			b = append(b, protoKeyChars[rapid.IntRange(0, len(protoKeyChars)-3).Draw(t, "c")])
		}
		return b
	}
}

func genProtoValue(t *rapid.T, cfg *ProtoCfg) verifkit.ValSpec {
	v := verifkit.ValSpec{}
	v.Class = rapid.SampledFrom([]string{"crlf", "text", "random", "const", "decimal", "mix", "periodic", "tailrand", "headrand"}).Draw(t, "class")
	switch rapid.IntRange(0, 8).Draw(t, "sizeclass") {
	case 8: // beyond the 10 KB compression probe: the probe and the whole value may compress differently (head/tail classes)
		v.Size = rapid.IntRange(10241, 60000).Draw(t, "size")
	case 0:
		v.Size = 0
	case 1:
		v.Size = rapid.IntRange(1, 30).Draw(t, "size")
	case 2: // around the C allocation threshold
		v.Size = int(cfg.BodyInC) + rapid.IntRange(-2, 2).Draw(t, "d")
	case 3: // around body_big
		v.Size = int(cfg.BodyBig) + rapid.IntRange(-2, 2).Draw(t, "d")
	case 4: // around body_max
		v.Size = int(cfg.BodyMax) + rapid.IntRange(-2, 1).Draw(t, "d")
	case 5: // compression thresholds
		v.Size = rapid.SampledFrom([]int{200, 230, 300, 10239, 10241, 12000}).Draw(t, "size")
	default:
		v.Size = rapid.IntRange(0, 6000).Draw(t, "size")
	}
	if v.Size < 0 {
		v.Size = 0
	}
	if int64(v.Size) > cfg.BodyMax {
		// an oversize header is answered with an error and its body is then parsed as commands: that variant is
		// generated as the header-only mutation "len-toolarge"
		v.Size = int(cfg.BodyMax)
	}
	v.Salt = rapid.Uint32Range(0, 40).Draw(t, "salt")
	return v
}

func genProtoFlag(t *rapid.T) int64 {
	switch rapid.IntRange(0, 5).Draw(t, "flagclass") {
	case 0, 1, 2:
		return 0
	case 3:
		return int64(store.FLAG_INCR)
	case 4:
		return int64(rapid.Uint32().Draw(t, "flag") &^ store.FLAG_COMPRESS)
	default:
		return int64(rapid.IntRange(1, 255).Draw(t, "flag"))
	}
}

func genCmd(t *rapid.T, cfg *ProtoCfg, prefix string, malformed bool) Cmd {
	verbs := []string{"set", "set", "set", "set", "get", "get", "get", "gets", "delete", "incr", "add", "replace", "cas", "mget", "mget",
		"stats", "version", "verbosity", "flush_all", "unknown", "append"}
	if malformed {
		verbs = append(verbs, "mut", "mut", "mut", "mut", "raw", "raw", "incrbad", "negexp")
	}
	verb := rapid.SampledFrom(verbs).Draw(t, "verb")
	c := Cmd{}
	one := func(special bool) [][]byte { return [][]byte{genProtoKey(t, prefix, special)} }
	switch verb {
	case "set", "add", "replace", "cas", "append":
		c.Verb = verb
		c.Keys = one(false)
		c.V = genProtoValue(t, cfg)
		c.Flag = genProtoFlag(t)
		if rapid.IntRange(0, 4).Draw(t, "explicit") == 0 {
			c.Exp = int64(rapid.IntRange(1, 12).Draw(t, "rev"))
		}
		c.Cas = int64(rapid.IntRange(0, 99).Draw(t, "cas"))
		c.NoReply = rapid.IntRange(0, 5).Draw(t, "noreply") == 0
		if int64(len(c.value())) > cfg.BodyBig && cfg.FlushMax < 1<<20 {
			c.NoReply = false // a refusal for memory shortage is decided before "noreply" is parsed and is always answered
		}
	case "get", "gets":
		c.Verb = verb
		c.Keys = one(true)
	case "mget":
		c.Verb = rapid.SampledFrom([]string{"get", "gets"}).Draw(t, "mverb")
		n := rapid.IntRange(2, 6).Draw(t, "nkeys")
		if rapid.IntRange(0, 15).Draw(t, "many") == 0 {
			n = rapid.IntRange(20, 400).Draw(t, "nkeys_many") // line longer than the 4 KB read buffer
		}
		for i := 0; i < n; i++ {
			c.Keys = append(c.Keys, genProtoKey(t, prefix, true))
		}
	case "delete":
		c.Verb = verb
		c.Keys = one(false)
		c.NoReply = rapid.IntRange(0, 5).Draw(t, "noreply") == 0
	case "incr":
		c.Verb = verb
		c.Keys = one(false)
		c.Delta = fmt.Sprint(rapid.IntRange(-3, 1000).Draw(t, "delta"))
		c.NoReply = rapid.IntRange(0, 5).Draw(t, "noreply") == 0
	case "incrbad":
		c.Verb = "incr"
		c.Keys = one(false)
		c.Delta = rapid.SampledFrom([]string{"abc", "1.5", "99999999999999999999999", "0x10", "--1", "+"}).Draw(t, "baddelta")
	case "negexp":
		c.Verb = "set"
		c.Keys = one(false)
		c.V = genProtoValue(t, cfg)
		c.Exp = int64(rapid.SampledFrom([]int{-1, -5, 1 << 31, 1 << 40}).Draw(t, "badexp"))
	case "stats":
		c.Verb = "stats"
		if rapid.Bool().Draw(t, "args") {
			c.Args = []string{rapid.SampledFrom([]string{"cmd_get", "curr_items", "nosuch", "uptime"}).Draw(t, "stat")}
		}
	case "version", "verbosity", "flush_all":
		c.Verb = verb
		if verb == "verbosity" && rapid.Bool().Draw(t, "arg") {
			c.Args = []string{"1"}
		}
	case "unknown":
		c.Verb = rapid.SampledFrom([]string{"gc", "touch", "GET", "optimize_stat", "hello", "sets"}).Draw(t, "uverb")
		c.Args = []string{rapid.SampledFrom([]string{"", "a", "1 2 3"}).Draw(t, "uargs")}
		if c.Args[0] == "" {
			c.Args = nil
		}
	case "mut":
		c.Verb = rapid.SampledFrom([]string{"set", "set", "add", "cas", "append", "prepend"}).Draw(t, "mverb")
		c.Keys = one(false)
		c.V = genProtoValue(t, cfg)
		if c.V.Size > 3000 {
			c.V.Size = 3000
		}
		muts := []string{"few-tokens", "many-tokens", "len-nonnum", "len-negative", "len-toolarge", "flag-nonnum", "exp-nonnum", "bad-noreply", "bad-terminator", "lf-only"}
		if c.Verb == "cas" {
			muts = append(muts, "cas-missing")
		}
		c.Mut = rapid.SampledFrom(muts).Draw(t, "mut")
		if c.Mut == "lf-only" {
			// the header line ends with a bare LF: rejected as a whole line; the body would then be parsed as commands.
			// Send it as a raw line without body.
			raw := fmt.Sprintf("%s %s 0 0 5\n", c.Verb, c.Keys[0])
			c = Cmd{Verb: "raw", Raw: []byte(raw), Want: "client_error"}
		}
		if c.Verb == "prepend" && c.Mut == "" {
			c.Mut = ""
		}
	case "raw":
		switch rapid.IntRange(0, 6).Draw(t, "rawclass") {
		case 0:
			c = Cmd{Verb: "raw", Raw: []byte("\r\n"), Want: "client_error"}
		case 1:
			c = Cmd{Verb: "raw", Raw: []byte("get\r\n"), Want: "client_error"}
		case 2:
			c = Cmd{Verb: "raw", Raw: []byte("delete\r\n"), Want: "client_error"}
		case 3:
			c = Cmd{Verb: "raw", Raw: []byte("incr k\r\n"), Want: "client_error"}
		case 4:
			c = Cmd{Verb: "raw", Raw: []byte("get a b\n"), Want: "client_error"}
		case 5:
			c = Cmd{Verb: "raw", Raw: []byte("   \r\n"), Want: "client_error"}
		default:
			c = Cmd{Verb: "raw", Raw: []byte("delete a b c d e\r\n"), Want: "client_error"}
		}
	}
	return c
}

func genScript(t *rapid.T, cfg *ProtoCfg, prefix string, malformed bool, maxCmds int, drop bool) connScript {
	sc := connScript{}
	gen := rapid.Custom(func(t *rapid.T) Cmd { return genCmd(t, cfg, prefix, malformed) })
	minLen := rapid.IntRange(1, maxCmds).Draw(t, "minlen")
	sc.Cmds = rapid.SliceOfN(gen, minLen, maxCmds).Draw(t, "cmds")
	for i := range sc.Cmds {
		s := 0
		c := &sc.Cmds[i]
		headerOnlyReply := c.Mut != "" && c.Mut != "bad-terminator"
		if !headerOnlyReply && c.Verb != "raw" && rapid.IntRange(0, 3).Draw(t, "split") == 0 {
			s = rapid.IntRange(1, 100000).Draw(t, "splitat")
		}
		sc.Splits = append(sc.Splits, s)
		b := 0
		if rapid.IntRange(0, 5).Draw(t, "batch") == 0 {
			b = rapid.IntRange(2, 5).Draw(t, "batchn")
		}
		sc.Batch = append(sc.Batch, b)
	}
	if drop && rapid.IntRange(0, 1).Draw(t, "drop") == 0 {
		dc := genCmd(t, cfg, prefix, false)
		if dc.Verb == "get" || dc.Verb == "gets" || isStorage(dc.Verb) || dc.Verb == "incr" || dc.Verb == "delete" {
			sc.DropCmd = &dc
			sc.DropAt = rapid.IntRange(0, 100000).Draw(t, "dropat")
		}
	}
	return sc
}

func protoLabels(pc *ProtoCase, labels map[string]bool) []string {
	for _, sc := range pc.Conns {
		for _, c := range sc.Cmds {
			labels["verb:"+c.Verb] = true
			if c.Mut != "" {
				labels["mut:"+c.Mut] = true
			}
			for _, k := range c.Keys {
				if len(k) > 0 && (k[0] == '@' || k[0] == '?') {
					labels["special_key"] = true
				}
			}
			if isStorage(c.Verb) && strings.ContainsAny(string(c.value()), "\r\n\x00") {
				labels["binary_value"] = true
			}
			if isStorage(c.Verb) && int64(len(c.value())) > pc.Cfg.BodyInC {
				labels["value_in_c_memory"] = true
			}
			if isStorage(c.Verb) && len(c.value()) > 10240 && (c.V.Class == "tailrand" || c.V.Class == "headrand" || c.V.Class == "mix") {
				labels["value>10K_uneven_compressibility"] = true
			}
		}
	}
	out := make([]string, 0, len(labels))
	for l := range labels {
		out = append(out, l)
	}
	sort.Strings(out)
	return out
}

type protoCheck struct {
	property, name string
	opts           protoOpts
	gen            func(t *rapid.T) *ProtoCase
	nontrivial     func(pc *ProtoCase, labels map[string]bool) bool
}

func (p *protoCheck) register() {
	replayers[p.name] = func(raw json.RawMessage) error {
		pc := &ProtoCase{}
		if err := json.Unmarshal(raw, pc); err != nil {
			return err
		}
		_, _, err := runProto(pc, p.opts)
		return err
	}
}

func (p *protoCheck) check(t *testing.T) {
	st := verifkit.StatsFor(p.name)
	defer verifkit.ClearCurrent()
	rapid.Check(t, func(t *rapid.T) {
		pc := p.gen(t)
		verifkit.SetCurrent(p.property, p.name, pc)
		labels, excluded, err := runProto(pc, p.opts)
		if err != nil && isInfra(err) {
			t.Fatalf("%v", err)
		}
		for id, n := range excluded {
			for i := 0; i < n; i++ {
				st.Exclude(id)
			}
		}
		ls := protoLabels(pc, labels)
		st.Case(ls, err == nil && p.nontrivial(pc, labels), canon(pc), pc)
		if err != nil {
			verifkit.Fail(p.property, p.name, pc, err.Error())
			t.Fatalf("%v", err)
		}
	})
}

func countCmds(pc *ProtoCase) int {
	n := 0
	for _, sc := range pc.Conns {
		n += len(sc.Cmds)
	}
	return n
}

var c11Proto = &protoCheck{
	property: "C11", name: "TestVerif_C11_Protocol",
	opts: protoOpts{property: "C11", check: "TestVerif_C11_Protocol"},
	gen: func(t *rapid.T) *ProtoCase {
		pc := &ProtoCase{Cfg: genProtoCfg(t)}
		max := 25
		if verifkit.Thorough() {
			max = 60
		}
		pc.Conns = append(pc.Conns, genScript(t, &pc.Cfg, "a", true, max, true))
		if rapid.IntRange(0, 2).Draw(t, "bystander") == 0 {
			// a second connection with well-formed commands only, served after the first one misbehaved
			pc.Conns = append(pc.Conns, genScript(t, &pc.Cfg, "b", false, 8, false))
		}
		return pc
	},
	nontrivial: func(pc *ProtoCase, labels map[string]bool) bool {
		return countCmds(pc) >= 3 && labels["binary_value"] && (labels["special_key"] || labels["malformed"])
	},
}

func TestVerif_C11_Protocol(t *testing.T) { c11Proto.check(t) }

var c12Counters = &protoCheck{
	property: "C12", name: "TestVerif_C12_Counters",
	opts: protoOpts{property: "C12", check: "TestVerif_C12_Counters", counters: true, concurrent: true},
	gen: func(t *rapid.T) *ProtoCase {
		pc := &ProtoCase{Cfg: genProtoCfg(t)}
		n := rapid.SampledFrom([]int{1, 1, 2, 3, 8}).Draw(t, "nconns")
		for i := 0; i < n; i++ {
			pc.Conns = append(pc.Conns, genScript(t, &pc.Cfg, fmt.Sprintf("c%d-", i), true, 16, true))
		}
		if rapid.IntRange(0, 2).Draw(t, "enumdrop") == 0 {
			dc := genCmd(t, &pc.Cfg, "e-", false)
			if isStorage(dc.Verb) || dc.Verb == "get" || dc.Verb == "gets" || dc.Verb == "incr" || dc.Verb == "delete" {
				if dc.V.Size > 600 {
					dc.V.Size = 600
				}
				pc.EnumDrop = &dc
			}
		}
		return pc
	},
	nontrivial: func(pc *ProtoCase, labels map[string]bool) bool {
		return (labels["malformed"] || labels["dropped_mid_command"]) && labels["value_in_c_memory"]
	},
}

func TestVerif_C12_Counters(t *testing.T) { c12Counters.check(t) }

// C01 over the text protocol: well-formed commands only, one connection, replies compared with the model.
var c01Proto = &protoCheck{
	property: "C01", name: "TestVerif_C01_Protocol",
	opts: protoOpts{property: "C01", check: "TestVerif_C01_Protocol", listing: true},
	gen: func(t *rapid.T) *ProtoCase {
		pc := &ProtoCase{Cfg: genProtoCfg(t)}
		pc.Cfg.CheckVHash = rapid.IntRange(0, 3).Draw(t, "cvh") == 0
		pc.Cfg.DataFile = rapid.SampledFrom([]int64{8 << 10, 128 << 10, 4000 << 20}).Draw(t, "dfm2")
		if pc.Cfg.BodyMax > pc.Cfg.DataFile-512 {
			pc.Cfg.BodyMax = pc.Cfg.DataFile - 512
		}
		max := 40
		if verifkit.Thorough() {
			max = 120
		}
		pc.Conns = append(pc.Conns, genScript(t, &pc.Cfg, "", false, max, false))
		return pc
	},
	nontrivial: func(pc *ProtoCase, labels map[string]bool) bool {
		return labels["verb:set"] && labels["verb:get"] && (labels["verb:delete"] || labels["verb:incr"]) && countCmds(pc) >= 6
	},
}

func TestVerif_C01_Protocol(t *testing.T) { c01Proto.check(t) }

func init() {
	c11Proto.register()
	c12Counters.register()
	c01Proto.register()
}
