package gobeansdb

// scriptConn: an in-memory net.Conn owned by the harness. The harness feeds input bytes; the connection tells it
// when the server is blocked in Read with no input left (so "no reply" is decided without time-outs).

import (
	"fmt"
	"io"
	"net"
	"os"
	"sync"
	"sync/atomic"
	"time"

	"github.com/douban/gobeansdb/cmem"
	"github.com/douban/gobeansdb/config"
	mc "github.com/douban/gobeansdb/memcache"
	"github.com/douban/gobeansdb/store"
	"github.com/douban/gobeansdb/verifhook"
)

type scriptConn struct {
	mu        sync.Mutex
	cond      *sync.Cond
	in        []byte
	inClosed  bool // client closed its side: Read returns EOF when drained
	out       []byte
	srvClosed bool // server called Close
	reading   bool // server is blocked in Read with an empty queue
	name      string
}

func newScriptConn(name string) *scriptConn {
	c := &scriptConn{name: name}
	c.cond = sync.NewCond(&c.mu)
	return c
}

func (c *scriptConn) Read(p []byte) (int, error) {
	c.mu.Lock()
	defer c.mu.Unlock()
	for len(c.in) == 0 {
		if c.inClosed || c.srvClosed {
			return 0, io.EOF
		}
		c.reading = true
		c.cond.Broadcast()
		c.cond.Wait()
	}
	c.reading = false
	n := copy(p, c.in)
	c.in = c.in[n:]
	return n, nil
}

func (c *scriptConn) Write(p []byte) (int, error) {
	c.mu.Lock()
	defer c.mu.Unlock()
	if c.srvClosed {
		return 0, io.ErrClosedPipe
	}
	c.out = append(c.out, p...)
	return len(p), nil
}

func (c *scriptConn) Close() error {
	c.mu.Lock()
	c.srvClosed = true
	c.cond.Broadcast()
	c.mu.Unlock()
	return nil
}

type scriptAddr string

func (a scriptAddr) Network() string { return "script" }
func (a scriptAddr) String() string  { return string(a) }

func (c *scriptConn) LocalAddr() net.Addr                { return scriptAddr("server") }
func (c *scriptConn) RemoteAddr() net.Addr               { return scriptAddr(c.name) }
func (c *scriptConn) SetDeadline(t time.Time) error      { return nil }
func (c *scriptConn) SetReadDeadline(t time.Time) error  { return nil }
func (c *scriptConn) SetWriteDeadline(t time.Time) error { return nil }

// Feed appends client bytes.
func (c *scriptConn) Feed(b []byte) {
	c.mu.Lock()
	c.in = append(c.in, b...)
	c.reading = false
	c.cond.Broadcast()
	c.mu.Unlock()
}

// CloseInput closes the client side (the server sees EOF after the pending bytes).
func (c *scriptConn) CloseInput() {
	c.mu.Lock()
	c.inClosed = true
	c.cond.Broadcast()
	c.mu.Unlock()
}

// errWedged: the server neither waits for input nor closed the connection within the safety net.
type errWedged struct{ msg string }

func (e *errWedged) Error() string { return e.msg }

// WaitIdle blocks until the server has consumed all input and is blocked reading more, or closed the connection.
// The deadline is a safety net: a server that is neither reading nor closed for that long is blocked somewhere else.
func (c *scriptConn) WaitIdle(d time.Duration) (closed bool, err error) {
	deadline := time.Now().Add(d)
	c.mu.Lock()
	defer c.mu.Unlock()
	for {
		if c.srvClosed {
			return true, nil
		}
		if c.reading && len(c.in) == 0 {
			return false, nil
		}
		if time.Now().After(deadline) {
			return false, &errWedged{fmt.Sprintf("server is neither waiting for input nor closed after %v (pending input %d bytes)", d, len(c.in))}
		}
		c.mu.Unlock()
		time.Sleep(50 * time.Microsecond)
		c.mu.Lock()
	}
}

// TakeOutput returns and clears what the server wrote.
func (c *scriptConn) TakeOutput() []byte {
	c.mu.Lock()
	defer c.mu.Unlock()
	o := c.out
	c.out = nil
	return o
}

// ---------------------------------------------------------------------------
// server under test

type ProtoCfg struct {
	NumBucket  int   `json:"nb"`
	TreeHeight int   `json:"th"`
	CheckVHash bool  `json:"cvh,omitempty"`
	MaxReq     int   `json:"maxreq"`
	BodyMax    int64 `json:"bm"`
	BodyInC    int64 `json:"bic"`
	BodyBig    int64 `json:"bbig"`
	FlushMax   int64 `json:"fmax"`
	DataFile   int64 `json:"dfm"`
	Served     []int `json:"served,omitempty"`
}

type testServer struct {
	cfg    ProtoCfg
	home   string
	hstore *store.HStore
	stor   *Storage
	stats  *mc.Stats
	wg     sync.WaitGroup
}

func startServer(cfg ProtoCfg) (*testServer, error) {
	home := newHome()
	conf := &store.HStoreConfig{}
	conf.InitDefault()
	conf.Init()
	conf.Home = home
	conf.NumBucket = cfg.NumBucket
	conf.BucketsStat = make([]int, cfg.NumBucket)
	conf.BucketsHex = nil
	for i := range conf.BucketsStat {
		if cfg.Served == nil {
			conf.BucketsStat[i] = 1
		}
	}
	for _, b := range cfg.Served {
		conf.BucketsStat[b] = 1
	}
	conf.TreeHeight = cfg.TreeHeight
	conf.CheckVHash = cfg.CheckVHash
	conf.DataFileMax = cfg.DataFile
	conf.SplitCap = 64
	conf.BufIOCap = 4096
	conf.MergeInterval = 1 << 20
	conf.InitTree()
	store.Conf = conf
	mcc := config.DefaultMCConfig
	mcc.MaxReq = cfg.MaxReq
	mcc.BodyMax = cfg.BodyMax
	mcc.BodyBig = cfg.BodyBig
	mcc.BodyInC = cfg.BodyInC
	mcc.FlushMax = cfg.FlushMax
	mcc.TimeoutMS = 1 << 30
	config.MCConf = mcc
	store.SecsBeforeDump = -1
	store.VerifSetKeyHash(nil)
	h, err := store.NewHStore()
	if err != nil {
		return nil, fmt.Errorf("NewHStore: %v", err)
	}
	mc.InitTokens()
	s := &testServer{cfg: cfg, home: home, hstore: h, stor: NewStorageForVerif(h), stats: mc.NewStats()}
	return s, nil
}

// connect starts a server goroutine on a new scripted connection.
func (s *testServer) connect(name string) *scriptConn {
	c := newScriptConn(name)
	sc := mc.NewServerConnForVerif(c)
	s.wg.Add(1)
	go func() {
		defer s.wg.Done()
		sc.Serve(s.stor.Client(), s.stats)
	}()
	return c
}

// waitConns waits until every Serve goroutine returned.
func (s *testServer) waitConns(d time.Duration) error {
	done := make(chan struct{})
	go func() { s.wg.Wait(); close(done) }()
	select {
	case <-done:
		return nil
	case <-time.After(d):
		return &errWedged{fmt.Sprintf("a connection goroutine did not finish within %v after its input was closed", d)}
	}
}

func (s *testServer) stop() {
	s.hstore.Close()
	os.RemoveAll(s.home)
}

// rotation flush goroutines (spawned by the store when a data file rotates) are part of "data is flushed":
// count them through the hook points and wait for them before reading the counters.
var rotStarted, rotDone int64

func init() {
	verifhook.Set(func(name string, args ...interface{}) {
		switch name {
		case "ds.rotate":
			atomic.AddInt64(&rotStarted, 1)
		case "ds.flush.exit":
			if chunk, ok := args[1].(int); ok && chunk >= 0 {
				atomic.AddInt64(&rotDone, 1)
			}
		}
	})
}

func waitRotationFlushes() error {
	deadline := time.Now().Add(20 * time.Second)
	for atomic.LoadInt64(&rotDone) < atomic.LoadInt64(&rotStarted) {
		if time.Now().After(deadline) {
			return infraf("rotation flush goroutines did not finish")
		}
		time.Sleep(100 * time.Microsecond)
	}
	return nil
}

// counters returns a description of non-zero accounting at quiescence ("" = all zero).
func counters() string {
	msg := ""
	rl := mc.RL
	if len(rl.Chan) != cap(rl.Chan) {
		msg += fmt.Sprintf("request tokens available %d of %d; ", len(rl.Chan), cap(rl.Chan))
	}
	d := &cmem.DBRL
	chk := func(name string, r *cmem.ResourceLimiter) {
		if r.Count != 0 || r.Size != 0 {
			msg += fmt.Sprintf("%s count=%d size=%d; ", name, r.Count, r.Size)
		}
	}
	chk("GetData", &d.GetData)
	chk("SetData", &d.SetData)
	chk("FlushData", &d.FlushData)
	chk("AllocRL", d.AllocRL)
	return msg
}
