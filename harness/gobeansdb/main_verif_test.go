package gobeansdb

import (
	"encoding/json"
	"errors"
	"fmt"
	"io"
	"os"
	"path/filepath"
	"runtime"
	"strings"
	"sync"
	"sync/atomic"
	"testing"

	"github.com/douban/gobeansdb/loghub"
	"github.com/douban/gobeansdb/verifkit"
)

var replayers = map[string]func(raw json.RawMessage) error{}

func TestMain(m *testing.M) {
	installQuietLog()
	rc := m.Run()
	verifkit.WriteStats()
	os.Exit(rc)
}

func TestVerifReplay(t *testing.T) {
	path := os.Getenv("VERIF_REPLAY")
	if path == "" {
		t.Skip("VERIF_REPLAY not set")
	}
	ff, err := verifkit.LoadFail(path)
	if err != nil {
		t.Fatalf("cannot load %s: %v", path, err)
	}
	f := replayers[ff.Check]
	if f == nil {
		t.Fatalf("no replayer for check %q", ff.Check)
	}
	if err := f(ff.Case); err != nil {
		t.Fatalf("replay of %s fails: %v", ff.Check, err)
	}
	fmt.Println("replay ok:", ff.Check)
}

type errInfra struct{ msg string }

func (e *errInfra) Error() string { return "INFRA: " + e.msg }
func infraf(format string, a ...interface{}) error {
	return &errInfra{fmt.Sprintf(format, a...)}
}
func isInfra(err error) bool {
	var e *errInfra
	return errors.As(err, &e)
}

// quiet, capturing log hub: ERROR lines are kept (the server logs recovered panics there), FATAL exits 3.
type quietHub struct {
	mu   sync.Mutex
	errs []string
}

func (h *quietHub) Log(name string, level int, file string, line int, msg string) {
	if level >= loghub.ERROR {
		h.mu.Lock()
		if len(h.errs) < 500 {
			if len(msg) > 600 {
				msg = msg[:600]
			}
			h.errs = append(h.errs, fmt.Sprintf("%s:%d %s", file, line, msg))
		}
		h.mu.Unlock()
	}
	if level == loghub.FATAL {
		fmt.Fprintf(os.Stderr, "FATAL %s:%d %s\n", file, line, msg)
		os.Exit(3)
	}
}
func (h *quietHub) Reopen(path string) error           { return nil }
func (h *quietHub) GetLastLog() []byte                 { return nil }
func (h *quietHub) DumpBuffer(all bool, out io.Writer) {}
func (h *quietHub) take() []string {
	h.mu.Lock()
	defer h.mu.Unlock()
	e := h.errs
	h.errs = nil
	return e
}

var theHub = &quietHub{}

func installQuietLog() {
	loghub.ErrorLogger.Hub = theHub
	loghub.ErrorLogger.SetLevel(loghub.ERROR)
}

// panicLines returns the captured log lines that report a recovered panic inside the server.
func panicLines(lines []string) []string {
	var out []string
	for _, l := range lines {
		if strings.Contains(l, "mc panic(") || strings.Contains(l, "panic(") {
			out = append(out, l)
		}
	}
	return out
}

func panicToError(e interface{}) error {
	pcs := make([]uintptr, 64)
	n := runtime.Callers(2, pcs)
	frames := runtime.CallersFrames(pcs[:n])
	var trace []string
	origin := ""
	pastPanic := false
	for {
		f, more := frames.Next()
		if f.Function == "runtime.gopanic" {
			pastPanic = true // frames before it belong to the deferred recover function
		}
		if f.Function != "" && !strings.HasPrefix(f.Function, "runtime.") {
			if origin == "" && pastPanic {
				origin = f.File
			}
			if len(trace) < 12 {
				trace = append(trace, fmt.Sprintf("%s:%d", filepath.Base(f.File), f.Line))
			}
		}
		if !more {
			break
		}
	}
	msg := fmt.Sprintf("panic: %v [at %s]", e, strings.Join(trace, " < "))
	if strings.HasSuffix(origin, "_verif_test.go") || strings.Contains(origin, "/verifkit/") || strings.Contains(origin, "pgregory.net") {
		return &errInfra{msg}
	}
	return errors.New(msg)
}

var caseSeq int64

func newHome() string {
	n := atomic.AddInt64(&caseSeq, 1)
	d := filepath.Join(verifkit.WorkDir(), fmt.Sprintf("p%d-%d", os.Getpid(), n)) // fuzz workers are separate processes sharing one work directory
	os.RemoveAll(d)
	os.MkdirAll(d, 0755)
	return d
}

func canon(v interface{}) []byte {
	b, _ := json.Marshal(v)
	return b
}
