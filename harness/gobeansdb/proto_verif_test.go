package gobeansdb

// Protocol-level harness: commands, reference model, strict reply grammar, script execution.

import (
	"bytes"
	"fmt"
	"strconv"
	"strings"
	"time"

	"github.com/douban/gobeansdb/store"
	"github.com/douban/gobeansdb/verifkit"
)

// Cmd is one client command (JSON: part of replay files). Keys and raw bytes are []byte (base64 in JSON).
type Cmd struct {
	Verb    string           `json:"verb"`           // get gets set add replace cas append prepend incr decr delete stats version verbosity flush_all quit raw
	Keys    [][]byte         `json:"keys,omitempty"` // get/gets: 1..n, others: 1
	Flag    int64            `json:"flag,omitempty"`
	Exp     int64            `json:"exp,omitempty"` // "exptime" = explicit revision
	V       verifkit.ValSpec `json:"v,omitempty"`
	Val     []byte           `json:"val,omitempty"` // explicit value bytes (instead of V)
	Cas     int64            `json:"cas,omitempty"`
	Delta   string           `json:"delta,omitempty"`
	NoReply bool             `json:"noreply,omitempty"`
	Args    []string         `json:"args,omitempty"` // stats/verbosity/unknown verbs
	// malformed variants
	Mut  string `json:"mut,omitempty"`  // see render
	Raw  []byte `json:"raw,omitempty"`  // verb "raw": sent verbatim
	Want string `json:"want,omitempty"` // verb "raw": expected reply class
}

func (c *Cmd) value() []byte {
	if c.Val != nil {
		return c.Val
	}
	return c.V.Expand()
}

func isStorage(v string) bool {
	switch v {
	case "set", "add", "replace", "cas", "append", "prepend":
		return true
	}
	return false
}

// render returns the bytes of the command and whether the header alone (no body) was sent.
func (c *Cmd) render() []byte {
	var b bytes.Buffer
	nr := ""
	if c.NoReply {
		nr = " noreply"
	}
	switch {
	case c.Verb == "raw":
		return c.Raw
	case c.Verb == "get" || c.Verb == "gets":
		b.WriteString(c.Verb)
		for _, k := range c.Keys {
			b.WriteByte(' ')
			b.Write(k)
		}
		b.WriteString("\r\n")
	case isStorage(c.Verb):
		val := c.value()
		length := strconv.Itoa(len(val))
		flag := strconv.FormatInt(c.Flag, 10)
		exp := strconv.FormatInt(c.Exp, 10)
		switch c.Mut {
		case "len-nonnum":
			length = "x" + length
		case "len-negative":
			length = "-1"
		case "len-toolarge":
			length = "99999999999"
		case "flag-nonnum":
			flag = "f"
		case "exp-nonnum":
			exp = "1e3"
		}
		b.WriteString(c.Verb)
		b.WriteByte(' ')
		b.Write(c.Keys[0])
		if c.Mut == "few-tokens" {
			b.WriteString(" 0\r\n")
			return b.Bytes()
		}
		if c.Mut == "many-tokens" {
			b.WriteString(" 0 0 1 2 3 4 5\r\n")
			return b.Bytes()
		}
		fmt.Fprintf(&b, " %s %s %s", flag, exp, length)
		if c.Verb == "cas" {
			if c.Mut == "cas-missing" {
				b.WriteString("\r\n")
				return b.Bytes()
			}
			fmt.Fprintf(&b, " %d", c.Cas)
		}
		if c.Mut == "bad-noreply" {
			b.WriteString(" noreplyy\r\n")
			return b.Bytes()
		}
		b.WriteString(nr)
		b.WriteString("\r\n")
		switch c.Mut {
		case "len-nonnum", "len-negative", "len-toolarge", "flag-nonnum", "exp-nonnum":
			return b.Bytes() // header only: the server answers the header and expects a new command
		}
		b.Write(val)
		if c.Mut == "bad-terminator" {
			b.WriteString("xy")
		} else {
			b.WriteString("\r\n")
		}
	case c.Verb == "incr" || c.Verb == "decr":
		fmt.Fprintf(&b, "%s %s %s%s\r\n", c.Verb, c.Keys[0], c.Delta, nr)
	case c.Verb == "delete":
		fmt.Fprintf(&b, "delete %s%s\r\n", c.Keys[0], nr)
	default: // stats version verbosity flush_all quit and unknown verbs
		b.WriteString(c.Verb)
		for _, a := range c.Args {
			b.WriteByte(' ')
			b.WriteString(a)
		}
		b.WriteString("\r\n")
	}
	if c.Mut == "lf-only" {
		out := b.Bytes()
		i := bytes.Index(out, []byte("\r\n"))
		return append(append([]byte{}, out[:i]...), out[i+1:]...)
	}
	return b.Bytes()
}

// ---------------------------------------------------------------------------
// reference model

type pkey struct {
	state int // 0 absent 1 live 2 deleted
	val   []byte
	flag  uint32
	ver   int32 // absolute; 0 = unknown (undocumented arithmetic), adopted from the next meta read
}

type pmodel struct {
	keys map[string]*pkey
	cvh  bool
}

func newPModel(cvh bool) *pmodel { return &pmodel{keys: map[string]*pkey{}, cvh: cvh} }

func (m *pmodel) get(k []byte) *pkey {
	p := m.keys[string(k)]
	if p == nil {
		p = &pkey{}
		m.keys[string(k)] = p
	}
	return p
}

func validKey(k []byte) bool {
	// documented rule, written independently of store.IsValidKeyString: 1..250 bytes, no control/space runes,
	// not starting with '@' or '?' or a byte <= ' '
	if len(k) == 0 || len(k) > 250 || k[0] <= ' ' || k[0] == '?' || k[0] == '@' {
		return false
	}
	for _, r := range string(k) {
		if r < 0x20 || r == 0x7f || (r >= 0x80 && r < 0xa0) || r == ' ' || r == 0x85 || r == 0xa0 || r == 0x1680 ||
			(r >= 0x2000 && r <= 0x200a) || r == 0x2028 || r == 0x2029 || r == 0x202f || r == 0x205f || r == 0x3000 {
			return false
		}
	}
	return true
}

// servedKey reports whether the bucket of key k (reference hash) is served by this configuration.
func servedKey(cfg *ProtoCfg, k []byte) bool {
	if cfg.Served == nil || cfg.NumBucket == 1 {
		return true
	}
	depth := 1
	if cfg.NumBucket == 256 {
		depth = 2
	}
	b := int(verifkit.KeyHash(k) >> uint(64-4*depth))
	for _, s := range cfg.Served {
		if s == b {
			return true
		}
	}
	return false
}

// expectation of the reply to one command
type expect struct {
	kind   string             // "none" | "line" | "values" | "close" | "line-or-close"
	lines  []string           // admissible exact lines (kind line); entries ending in '*' are prefixes
	values map[string]*evalue // kind values: exactly these keys (nil entry = grammar only for that key, may be absent)
	cas    bool
	strict bool // values: the set of returned keys must be exactly the non-nil entries (plus optional nil ones)
	// oom: the command may be refused with NOT_STORED for memory shortage (documented); the model is then rolled back
	optionalLine bool // kind line: no reply at all is admissible too
	errorOK      bool // kind values: a single SERVER_ERROR line is admissible instead (unparsable directory / record keys)
	oom          bool
	oomKey       string
	oomPrev      pkey
}

type evalue struct {
	data     []byte
	flag     uint32
	optional bool  // may be missing
	anyBody  bool  // body not checked
	meta     *pkey // snapshot of the key's model state when the command was issued
	metaLive *pkey // the live model entry (to adopt an observed version where the model does not know it)
	metaExt  bool
}

// apply updates the model and returns the expected reply.
func (m *pmodel) apply(c *Cmd, srv *ProtoCfg) expect {
	none := func(e expect) expect {
		if c.NoReply {
			return expect{kind: "none"}
		}
		return e
	}
	line := func(l ...string) expect { return expect{kind: "line", lines: l} }
	switch {
	case c.Verb == "raw":
		switch c.Want {
		case "client_error":
			return line("CLIENT_ERROR *")
		case "error":
			return line("ERROR")
		case "close":
			return expect{kind: "close"}
		case "none":
			return expect{kind: "none"}
		}
		return expect{kind: "line-or-close", lines: []string{"CLIENT_ERROR *", "ERROR", "SERVER_ERROR *", "NOT_STORED", "STORED", "END", "NOT_FOUND"}}
	case c.Verb == "get" || c.Verb == "gets":
		for _, k := range c.Keys {
			if len(k) > 250 {
				return line("CLIENT_ERROR key length error")
			}
		}
		e := expect{kind: "values", values: map[string]*evalue{}, cas: c.Verb == "gets"}
		single := len(c.Keys) == 1
		for _, k := range c.Keys {
			ks := string(k)
			switch {
			case k[0] == '@':
				if single && len(k) > 1 && k[1] == '@' && len(k) != 18 {
					return line("SERVER_ERROR *")
				}
				if single {
					e.errorOK = true
				}
				e.values[ks] = &evalue{optional: true, anyBody: true}
			case k[0] == '?':
				ext := len(k) > 1 && k[1] == '?'
				real := k[1:]
				if ext {
					real = k[2:]
				}
				if len(k) == 1 {
					if single {
						return line("SERVER_ERROR *")
					}
					continue
				}
				if !validKey(real) {
					continue // miss
				}
				p := m.get(real)
				snap := *p
				switch p.state {
				case 1:
					e.values[ks] = &evalue{meta: &snap, metaLive: p, metaExt: ext}
				case 2:
					e.values[ks] = &evalue{meta: &snap, metaLive: p, metaExt: ext}
				case 3:
					e.values[ks] = &evalue{optional: true, anyBody: true}
				}
			default:
				p := m.get(k)
				if p.state == 1 {
					e.values[ks] = &evalue{data: p.val, flag: p.flag}
				} else if p.state == 3 {
					e.values[ks] = &evalue{optional: true, anyBody: true} // state unknown after an out-of-domain command
				}
			}
		}
		return e
	case isStorage(c.Verb) && (c.Mut == "" || c.Mut == "bad-terminator") && int64(len(c.value())) > srv.BodyBig && int64(len(c.value())) <= srv.BodyMax && srv.FlushMax < 1<<20:
		// documented: a big set may be refused (NOT_STORED) while more than flush_max bytes wait to be flushed
		k := c.Keys[0]
		prev := *m.get(k)
		innerSrv := *srv
		innerSrv.FlushMax = 1 << 40
		e := m.apply(c, &innerSrv)
		switch e.kind {
		case "line":
			e.lines = append(append([]string{}, e.lines...), "NOT_STORED")
		case "close":
			e = expect{kind: "line-or-close", lines: []string{"NOT_STORED"}}
		case "none":
			e = expect{kind: "line", lines: []string{"NOT_STORED", ""}, optionalLine: true}
		}
		e.oom, e.oomKey, e.oomPrev = true, string(k), prev
		return e
	case c.Verb == "append":
		switch c.Mut {
		case "":
			if c.NoReply {
				return expect{kind: "close"} // unsupported verb, nothing to reply: orderly close
			}
			return line("SERVER_ERROR *")
		}
		fallthrough
	case c.Verb == "set" || c.Verb == "add" || c.Verb == "replace" || c.Verb == "cas" || c.Verb == "prepend":
		switch c.Mut {
		case "few-tokens", "many-tokens", "len-nonnum", "flag-nonnum", "exp-nonnum", "cas-missing", "bad-noreply", "lf-only":
			return line("CLIENT_ERROR *")
		case "len-negative", "len-toolarge":
			return line("CLIENT_ERROR *")
		case "bad-terminator":
			return line("CLIENT_ERROR *")
		}
		if c.Verb == "prepend" {
			return expect{kind: "close"} // unsupported verb: orderly close
		}
		val := c.value()
		if int64(len(val)) > srv.BodyMax {
			return line("CLIENT_ERROR *")
		}
		k := c.Keys[0]
		if !validKey(k) {
			return none(line("NOT_STORED"))
		}
		if c.Exp < 0 || c.Exp > 2147483647 {
			// revisions are 0 or positive 32-bit numbers: refused (since the fix of C12-negative-revision)
			return none(line("NOT_STORED"))
		}
		if !servedKey(srv, k) {
			return none(line("STORED")) // documented: an unserved bucket answers STORED and stores nothing
		}
		p := m.get(k)
		if p.state == 3 {
			return none(line("STORED", "NOT_STORED", "NOT_FOUND", "SERVER_ERROR *"))
		}
		flag := uint32(c.Flag)
		rev := int32(c.Exp)
		abs := p.ver
		if p.state == 0 {
			abs = 0
		}
		if m.cvh && p.state == 1 && verifkit.Vhash(val) == verifkit.Vhash(p.val) {
			if rev != 0 && p.ver != 0 && rev > abs {
				p.ver = rev
			}
			return none(line("STORED"))
		}
		switch {
		case rev == 0:
			if p.ver != 0 || p.state == 0 {
				p.ver = abs + 1
			}
		case p.ver == 0 && p.state != 0:
			// current version unknown: acceptance undetermined
			p.state = 3
			return none(line("STORED"))
		case rev <= abs:
			return none(line("STORED")) // stale explicit revision: answered STORED without storing
		default:
			p.ver = rev
		}
		p.state, p.val, p.flag = 1, val, flag
		return none(line("STORED"))
	case c.Verb == "incr":
		k := c.Keys[0]
		delta, err := strconv.Atoi(c.Delta)
		if err != nil {
			return none(line("CLIENT_ERROR *"))
		}
		if !validKey(k) || !servedKey(srv, k) {
			return none(line("0"))
		}
		p := m.get(k)
		switch p.state {
		case 1:
			n, err := strconv.Atoi(string(p.val))
			if p.flag != store.FLAG_INCR || len(p.val) > 22 || err != nil {
				return none(line("0"))
			}
			n += delta
			p.val = []byte(strconv.Itoa(n))
			if p.ver != 0 {
				p.ver++
			}
			return none(line(strconv.Itoa(n)))
		case 3:
			return none(expect{kind: "line", lines: []string{"*"}})
		default:
			if p.state == 2 {
				p.ver = 0 // undocumented: 1 or |old|+1
			} else {
				p.ver = 1
			}
			p.state, p.val, p.flag = 1, []byte(strconv.Itoa(delta)), store.FLAG_INCR
			return none(line(strconv.Itoa(delta)))
		}
	case c.Verb == "decr":
		return expect{kind: "close"}
	case c.Verb == "delete":
		k := c.Keys[0]
		if !validKey(k) {
			return none(line("NOT_FOUND"))
		}
		if !servedKey(srv, k) {
			return none(line("DELETED")) // an unserved bucket acknowledges without doing anything
		}
		p := m.get(k)
		switch p.state {
		case 1:
			p.state, p.val = 2, nil
			if p.ver != 0 {
				p.ver++
			}
			return none(line("DELETED"))
		case 3:
			return none(line("DELETED", "NOT_FOUND"))
		}
		return none(line("NOT_FOUND"))
	case c.Verb == "stats":
		return expect{kind: "stats"}
	case c.Verb == "version":
		return line("VERSION *")
	case c.Verb == "verbosity" || c.Verb == "flush_all":
		return line("OK")
	case c.Verb == "quit":
		return expect{kind: "close"}
	}
	if c.Verb == "optimize_stat" {
		return line("none", "running")
	}
	return line("ERROR")
}

// ---------------------------------------------------------------------------
// strict reply grammar

func matchLine(got string, admissible []string) bool {
	for _, a := range admissible {
		if strings.HasSuffix(a, "*") {
			if strings.HasPrefix(got, a[:len(a)-1]) {
				return true
			}
		} else if got == a {
			return true
		}
	}
	return false
}

func readLine(out []byte) (line string, rest []byte, ok bool) {
	i := bytes.Index(out, []byte("\r\n"))
	if i < 0 {
		return "", out, false
	}
	return string(out[:i]), out[i+2:], true
}

// checkReply validates the bytes the server wrote in reply to one command.
func checkReply(c *Cmd, e expect, out []byte, closed bool) error {
	switch e.kind {
	case "none":
		if len(out) != 0 {
			return fmt.Errorf("expected no reply, server wrote %.120q", out)
		}
		return nil
	case "close":
		if !closed {
			return fmt.Errorf("expected an orderly close, connection still open (output %.120q)", out)
		}
		if len(out) != 0 {
			l, rest, ok := readLine(out)
			if !ok || len(rest) != 0 || !matchLine(l, []string{"ERROR", "CLIENT_ERROR *", "SERVER_ERROR *"}) {
				return fmt.Errorf("expected an orderly close (optionally after one error line), server wrote %.120q", out)
			}
		}
		return nil
	case "line", "line-or-close":
		if e.kind == "line-or-close" && closed && len(out) == 0 {
			return nil
		}
		if e.optionalLine && len(out) == 0 {
			return nil
		}
		l, rest, ok := readLine(out)
		if !ok {
			if len(out) == 0 {
				return fmt.Errorf("no reply (expected one of %q); connection closed: %v", e.lines, closed)
			}
			return fmt.Errorf("reply is not a complete line: %.120q", out)
		}
		if len(rest) != 0 {
			return fmt.Errorf("more than one reply: %.200q", out)
		}
		if !matchLine(l, e.lines) {
			return fmt.Errorf("reply %q, expected one of %q", l, e.lines)
		}
		if strings.ContainsAny(l, "\r\n") {
			return fmt.Errorf("reply line contains a bare CR/LF: %q", l)
		}
		return nil
	case "stats":
		rest := out
		n := 0
		for {
			l, r, ok := readLine(rest)
			if !ok {
				return fmt.Errorf("stats reply not terminated by END: %.200q", out)
			}
			rest = r
			if l == "END" {
				break
			}
			f := strings.Split(l, " ")
			if len(f) != 3 || f[0] != "STAT" {
				return fmt.Errorf("malformed stats line %q", l)
			}
			n++
		}
		if len(rest) != 0 {
			return fmt.Errorf("bytes after END of stats: %.100q", rest)
		}
		return nil
	case "values":
		if e.errorOK && bytes.HasPrefix(out, []byte("SERVER_ERROR ")) {
			l, rest, ok := readLine(out)
			if !ok || len(rest) != 0 || strings.ContainsAny(l, "\r\n") {
				return fmt.Errorf("malformed error reply %.120q", out)
			}
			return nil
		}
		rest := out
		seen := map[string]bool{}
		for {
			l, r, ok := readLine(rest)
			if !ok {
				if len(out) == 0 {
					return fmt.Errorf("no reply to %s (connection closed: %v)", c.Verb, closed)
				}
				return fmt.Errorf("get reply not terminated by END: %.200q", out)
			}
			rest = r
			if l == "END" {
				break
			}
			if strings.HasPrefix(l, "SERVER_ERROR") || strings.HasPrefix(l, "CLIENT_ERROR") {
				return fmt.Errorf("error reply %q to a well-formed %s", l, c.Verb)
			}
			f := strings.Split(l, " ")
			want := 4
			if e.cas {
				want = 5
			}
			if len(f) != want || f[0] != "VALUE" {
				return fmt.Errorf("malformed VALUE line %q (cas=%v)", l, e.cas)
			}
			key := f[1]
			flag, err1 := strconv.ParseUint(f[2], 10, 64)
			n, err2 := strconv.Atoi(f[3])
			if err1 != nil || err2 != nil || n < 0 {
				return fmt.Errorf("malformed VALUE line %q", l)
			}
			if len(rest) < n+2 || rest[n] != '\r' || rest[n+1] != '\n' {
				return fmt.Errorf("VALUE %q: data block of %d bytes not terminated by CRLF", key, n)
			}
			data := rest[:n]
			rest = rest[n+2:]
			if seen[key] {
				return fmt.Errorf("key %q returned twice", key)
			}
			seen[key] = true
			ev, ok := e.values[key]
			if !ok {
				return fmt.Errorf("VALUE returned for key %q which the model does not expect (flag %d, %d bytes %.40q)", key, flag, n, data)
			}
			switch {
			case ev.anyBody:
			case ev.meta != nil:
				if err := checkMeta(key, ev, string(data)); err != nil {
					return err
				}
				if flag != 0 {
					return fmt.Errorf("meta reply of %q has flag %d", key, flag)
				}
			default:
				if !bytes.Equal(data, ev.data) {
					return fmt.Errorf("get %q returned %d bytes %.60q, model has %d bytes %.60q", key, n, data, len(ev.data), ev.data)
				}
				if uint32(flag) != ev.flag || flag > 0xffffffff {
					return fmt.Errorf("get %q returned flag %d, model %d", key, flag, ev.flag)
				}
			}
		}
		if len(rest) != 0 {
			return fmt.Errorf("bytes after END: %.100q", rest)
		}
		for k, ev := range e.values {
			if !seen[k] && !ev.optional && !(ev.meta != nil && ev.meta.state == 2) {
				return fmt.Errorf("key %q missing from the reply (model: present)", k)
			}
		}
		return nil
	}
	return infraf("unknown expectation %q", e.kind)
}

func checkMeta(key string, ev *evalue, body string) error {
	f := strings.Split(body, " ")
	want := 5
	if ev.metaExt {
		want = 7
	}
	if len(f) != want {
		return fmt.Errorf("meta reply of %q has %d fields: %q", key, len(f), body)
	}
	nums := make([]int64, len(f))
	for i, s := range f {
		v, err := strconv.ParseInt(s, 10, 64)
		if err != nil {
			return fmt.Errorf("meta reply of %q: field %d not a number: %q", key, i, body)
		}
		nums[i] = v
	}
	p := ev.meta
	switch p.state {
	case 1:
		if nums[0] <= 0 {
			return fmt.Errorf("meta of live key %q has version %d", key, nums[0])
		}
		if p.ver != 0 && int64(p.ver) != nums[0] {
			return fmt.Errorf("meta of %q: version %d, model %d", key, nums[0], p.ver)
		}
		if l := ev.metaLive; l != nil && l.ver == 0 && l.state == 1 && p.ver == 0 {
			l.ver = int32(nums[0])
		}
		if int64(verifkit.Vhash(p.val)) != nums[1] {
			return fmt.Errorf("meta of %q: value hash %d, reference %d", key, nums[1], verifkit.Vhash(p.val))
		}
		if int64(p.flag) != nums[2] {
			return fmt.Errorf("meta of %q: flag %d, model %d", key, nums[2], p.flag)
		}
		if int64(len(p.val)) != nums[3] {
			return fmt.Errorf("meta of %q: length %d, model %d", key, nums[3], len(p.val))
		}
	case 2:
		if nums[0] >= 0 {
			return fmt.Errorf("meta of deleted key %q has version %d", key, nums[0])
		}
		if p.ver != 0 && int64(p.ver) != -nums[0] {
			return fmt.Errorf("meta of deleted %q: version %d, model -%d", key, nums[0], p.ver)
		}
		if l := ev.metaLive; l != nil && l.ver == 0 && l.state == 2 && p.ver == 0 {
			l.ver = int32(-nums[0])
		}
	}
	return nil
}

// ---------------------------------------------------------------------------
// script execution on one connection

type connScript struct {
	Cmds   []Cmd `json:"cmds"`
	Splits []int `json:"splits,omitempty"` // per command: if >0 the command is fed in two parts at this byte (mod len)
	// Batch: feed this many commands at once (pipelining); 0/1 = one at a time
	Batch []int `json:"batch,omitempty"`
	// DropAt: after the last command, send this many bytes of DropCmd and close the connection (-1: no drop)
	DropCmd *Cmd `json:"dropcmd,omitempty"`
	DropAt  int  `json:"dropat,omitempty"`

	midCheck bool // set by the runner: single connection and counters are part of the oracle
}

const idleNet = 20 * time.Second

// idleAccounting (C12): while the only connection is idle between two commands, all connections are idle; once the data
// is flushed the tokens must all be back and the four counters zero - checked after EVERY command, so that a leak is
// pinned to its command and two opposite errors cannot cancel out by the end of the stream.
func idleAccounting(srv *testServer) string {
	if e := waitRotationFlushes(); e != nil {
		return ""
	}
	srv.hstore.VerifFlush(true)
	return counters()
}

// runScript drives one connection and validates every reply. It returns labels for the statistics.
func runScript(srv *testServer, conn *scriptConn, sc *connScript, model *pmodel, labels map[string]bool) error {
	i := 0
	closedEarly := false
	for i < len(sc.Cmds) {
		n := 1
		if i < len(sc.Batch) && sc.Batch[i] > 1 {
			n = sc.Batch[i]
			if i+n > len(sc.Cmds) {
				n = len(sc.Cmds) - i
			}
		}
		for j := i; n > 1 && j < i+n; j++ {
			cj := &sc.Cmds[j]
			if isStorage(cj.Verb) && (cj.Mut == "" || cj.Mut == "bad-terminator") && int64(len(cj.value())) > srv.cfg.BodyBig && srv.cfg.FlushMax < 1<<20 {
				n = 1 // a possibly refused set: its effect on the model is only known after its reply
			}
		}
		if n > 1 {
			labels["pipelined"] = true
			var all []byte
			var exps []expect
			for j := i; j < i+n; j++ {
				all = append(all, sc.Cmds[j].render()...)
				e := model.apply(&sc.Cmds[j], &srv.cfg)
				exps = append(exps, e)
				if e.kind == "close" {
					n = j - i + 1 // the server closes here: what follows in the batch is never executed (and not sent)
					break
				}
			}
			conn.Feed(all)
			closed, err := conn.WaitIdle(idleNet)
			if err != nil {
				return fmt.Errorf("after pipelined commands %d..%d: %v", i, i+n-1, err)
			}
			out := conn.TakeOutput()
			// split the output greedily command by command using the grammar
			rest := out
			for j, e := range exps {
				k, err := replyLength(e, rest)
				if err != nil {
					return fmt.Errorf("pipelined command %d (%s): %v (output %.200q)", i+j, sc.Cmds[i+j].Verb, err, rest)
				}
				isLast := j == len(exps)-1
				if err := checkReply(&sc.Cmds[i+j], e, rest[:k], closed && (isLast || e.kind == "close")); err != nil {
					return fmt.Errorf("pipelined command %d %s: %v", i+j, describe(&sc.Cmds[i+j]), err)
				}
				rest = rest[k:]
				if e.kind == "close" {
					if len(rest) != 0 {
						return fmt.Errorf("output after the connection should have been closed: %.100q", rest)
					}
					closedEarly = true
					break
				}
			}
			if !closedEarly && len(rest) != 0 {
				return fmt.Errorf("unexpected extra output after pipelined commands: %.200q", rest)
			}
			if closed {
				closedEarly = true
			}
			i += n
			if closedEarly {
				break
			}
			if sc.midCheck {
				if msg := idleAccounting(srv); msg != "" {
					return fmt.Errorf("after pipelined commands %d..%d, with the only connection idle and data flushed: accounting not zero: %s", i-n, i-1, msg)
				}
				labels["accounting_checked_between_commands"] = true
			}
			continue
		}
		c := &sc.Cmds[i]
		b := c.render()
		e := model.apply(c, &srv.cfg)
		if i < len(sc.Splits) && sc.Splits[i] > 0 && len(b) > 1 {
			cut := 1 + sc.Splits[i]%(len(b)-1)
			conn.Feed(b[:cut])
			if _, err := conn.WaitIdle(idleNet); err != nil {
				return fmt.Errorf("command %d %s after the first %d bytes: %v", i, describe(c), cut, err)
			}
			if early := conn.TakeOutput(); len(early) != 0 && !isStorage(c.Verb) {
				return fmt.Errorf("command %d %s: server replied %.100q before the command was complete", i, describe(c), early)
			} else if len(early) != 0 {
				// a storage header that is answered before its body arrived (error in the header): the rest of the
				// command is then parsed as commands of its own; not generated with splits
				return fmt.Errorf("command %d %s: reply %.100q after a partial command", i, describe(c), early)
			}
			conn.Feed(b[cut:])
			labels["split_write"] = true
		} else {
			conn.Feed(b)
		}
		closed, err := conn.WaitIdle(idleNet)
		if err != nil {
			return fmt.Errorf("command %d %s: %v", i, describe(c), err)
		}
		out := conn.TakeOutput()
		if err := checkReply(c, e, out, closed); err != nil {
			return fmt.Errorf("command %d %s: %v", i, describe(c), err)
		}
		if e.oom && string(out) == "NOT_STORED\r\n" {
			prev := e.oomPrev
			*model.get([]byte(e.oomKey)) = prev
			labels["oom_refused"] = true
		}
		if c.Mut != "" || c.Verb == "raw" {
			labels["malformed"] = true
		}
		i++
		if closed {
			if e.kind != "close" && e.kind != "line-or-close" {
				return fmt.Errorf("command %d %s: the server closed the connection", i-1, describe(c))
			}
			closedEarly = true
			break
		}
		if sc.midCheck {
			if msg := idleAccounting(srv); msg != "" {
				return fmt.Errorf("after command %d %s, with the only connection idle and data flushed: accounting not zero: %s", i-1, describe(c), msg)
			}
			labels["accounting_checked_between_commands"] = true
		}
	}
	if !closedEarly && sc.DropCmd != nil {
		b := sc.DropCmd.render()
		cut := 0
		if len(b) > 0 {
			cut = sc.DropAt % (len(b) + 1)
		}
		conn.Feed(b[:cut])
		labels["dropped"] = true
		if cut < len(b) {
			labels["dropped_mid_command"] = true
		}
	}
	conn.CloseInput()
	return nil
}

// replyLength determines how many bytes of out belong to the reply described by e.
func replyLength(e expect, out []byte) (int, error) {
	switch e.kind {
	case "none", "close":
		if e.kind == "close" {
			return len(out), nil
		}
		return 0, nil
	case "line", "line-or-close":
		i := bytes.Index(out, []byte("\r\n"))
		if i < 0 {
			return len(out), nil
		}
		return i + 2, nil
	case "stats":
		i := bytes.Index(out, []byte("END\r\n"))
		if i < 0 {
			return 0, fmt.Errorf("stats reply without END")
		}
		return i + 5, nil
	case "values":
		pos := 0
		for {
			i := bytes.Index(out[pos:], []byte("\r\n"))
			if i < 0 {
				return len(out), nil
			}
			l := string(out[pos : pos+i])
			pos += i + 2
			if l == "END" || !strings.HasPrefix(l, "VALUE ") {
				return pos, nil
			}
			f := strings.Split(l, " ")
			if len(f) < 4 {
				return pos, nil
			}
			n, err := strconv.Atoi(f[3])
			if err != nil || n < 0 || pos+n+2 > len(out) {
				return len(out), nil
			}
			pos += n + 2
		}
	}
	return 0, infraf("unknown expectation %q", e.kind)
}

func describe(c *Cmd) string {
	b := c.render()
	if len(b) > 90 {
		return fmt.Sprintf("%.90q...(%d bytes) mut=%q", b, len(b), c.Mut)
	}
	return fmt.Sprintf("%q mut=%q", b, c.Mut)
}
