package gobeansdb

// C11/C12 at byte level: ANY byte stream is fed to the real ServerConn + StorageClient + HStore in one or several
// writes. No per-command expectation is derived from the bytes; the oracle is generic:
//   * the server ends up waiting for input or closes the connection (no silent stall), and its goroutine ends once the
//     input is closed; no (recovered) panic;
//   * everything it wrote parses, completely, as a sequence of syntactically valid memcached replies;
//   * a well-formed probe on a second connection is answered correctly afterwards (other connections and later
//     commands are unaffected);
//   * at quiescence all request tokens are back and the four buffer counters are zero (C12).
// Driven by a rapid "token soup" generator (quick tier) and by Go's coverage-guided fuzzer (thorough tier).

import (
	"bytes"
	"encoding/json"
	"fmt"
	"strconv"
	"strings"
	"testing"

	"github.com/douban/gobeansdb/verifkit"
	"pgregory.net/rapid"
)

type rawCase struct {
	Data   []byte `json:"data"`
	Splits []int  `json:"splits,omitempty"` // the stream is written in pieces cut at these offsets (ascending)
	Cfg    int    `json:"cfg"`              // index into rawCfgs
	Input  []byte `json:"input,omitempty"`  // a raw fuzz input saved by the driver (first byte = configuration)
}

var rawCfgs = []ProtoCfg{
	{NumBucket: 1, TreeHeight: 3, MaxReq: 4, BodyMax: 4096, BodyInC: 64, BodyBig: 2048, FlushMax: 1 << 30, DataFile: 64 << 10},
	{NumBucket: 16, TreeHeight: 2, MaxReq: 2, BodyMax: 700, BodyInC: 0, BodyBig: 100, FlushMax: 10, DataFile: 4 << 10, Served: []int{0, 3, 7, 15}},
	{NumBucket: 1, TreeHeight: 2, CheckVHash: true, MaxReq: 16, BodyMax: 70000, BodyInC: 4096, BodyBig: 30000, FlushMax: 1 << 30, DataFile: 256 << 10},
}

// parseReplies checks that out is a concatenation of complete, syntactically valid replies.
func parseReplies(out []byte) (n int, err error) {
	rest := out
	for len(rest) > 0 {
		i := bytes.Index(rest, []byte("\r\n"))
		if i < 0 {
			return n, fmt.Errorf("reply %d: output ends without CRLF: %q", n, clip(rest))
		}
		line := string(rest[:i])
		rest = rest[i+2:]
		word := line
		if sp := strings.IndexByte(line, ' '); sp >= 0 {
			word = line[:sp]
		}
		switch word {
		case "STORED", "NOT_STORED", "DELETED", "NOT_FOUND", "OK", "END", "running", "none":
			if line != word {
				return n, fmt.Errorf("reply %d: status line with trailing text: %q", n, clip([]byte(line)))
			}
		case "ERROR", "CLIENT_ERROR", "SERVER_ERROR", "VERSION", "STAT":
			// free text up to the end of the line
		case "VALUE":
			f := strings.Split(line, " ")
			if len(f) != 4 && len(f) != 5 {
				return n, fmt.Errorf("reply %d: VALUE line with %d fields: %q", n, len(f), clip([]byte(line)))
			}
			if _, e := strconv.ParseUint(f[2], 10, 32); e != nil {
				return n, fmt.Errorf("reply %d: VALUE flags %q", n, f[2])
			}
			l, e := strconv.Atoi(f[3])
			if e != nil || l < 0 {
				return n, fmt.Errorf("reply %d: VALUE length %q", n, f[3])
			}
			if len(f) == 5 {
				if _, e := strconv.ParseInt(f[4], 10, 64); e != nil {
					return n, fmt.Errorf("reply %d: VALUE cas %q", n, f[4])
				}
			}
			if len(rest) < l+2 {
				return n, fmt.Errorf("reply %d: VALUE block announces %d bytes, only %d follow", n, l, len(rest))
			}
			if rest[l] != '\r' || rest[l+1] != '\n' {
				return n, fmt.Errorf("reply %d: VALUE block of %d bytes is not terminated by CRLF", n, l)
			}
			rest = rest[l+2:]
			continue // part of a get reply, which ends with END
		default:
			if _, e := strconv.ParseUint(line, 10, 64); e != nil {
				return n, fmt.Errorf("reply %d: not a valid reply line: %q", n, clip([]byte(line)))
			}
		}
		n++
	}
	return n, nil
}

func clip(b []byte) []byte {
	if len(b) > 120 {
		return b[:120]
	}
	return b
}

func runRaw(rc *rawCase) (err error) {
	defer func() {
		if e := recover(); e != nil {
			err = panicToError(e)
		}
	}()
	cfg := rawCfgs[rc.Cfg%len(rawCfgs)]
	theHub.take()
	srv, e := startServer(cfg)
	if e != nil {
		return infraf("%v", e)
	}
	defer srv.stop()
	c := srv.connect("raw")
	prev := 0
	pieces := append(append([]int{}, rc.Splits...), len(rc.Data))
	for _, cut := range pieces {
		if cut < prev || cut > len(rc.Data) {
			continue
		}
		if cut > prev {
			c.Feed(rc.Data[prev:cut])
		}
		prev = cut
		closed, e := c.WaitIdle(idleNet)
		if e != nil {
			c.CloseInput()
			return fmt.Errorf("after %d of %d bytes: %v", cut, len(rc.Data), e)
		}
		if closed {
			break
		}
	}
	c.CloseInput()
	if e := srv.waitConns(idleNet); e != nil {
		return e
	}
	if pl := panicLines(theHub.take()); len(pl) > 0 {
		return fmt.Errorf("the server recovered from a panic while serving the stream: %s", pl[0])
	}
	out := c.TakeOutput()
	if _, e := parseReplies(out); e != nil {
		return fmt.Errorf("the server's output is not a sequence of valid replies: %v", e)
	}
	// later commands on another connection are answered correctly
	p := srv.connect("probe")
	p.Feed([]byte("set verif-probe 5 0 3\r\nabc\r\nget verif-probe\r\ndelete verif-probe\r\nget verif-probe\r\n"))
	if _, e := p.WaitIdle(idleNet); e != nil {
		return fmt.Errorf("probe connection after the stream: %v", e)
	}
	p.CloseInput()
	if e := srv.waitConns(idleNet); e != nil {
		return e
	}
	want := "STORED\r\nVALUE verif-probe 5 3\r\nabc\r\nEND\r\nDELETED\r\nEND\r\n"
	if cfg.Served != nil && !servedKey(&cfg, []byte("verif-probe")) {
		want = "STORED\r\nEND\r\nDELETED\r\nEND\r\n" // a bucket this server does not serve: acknowledged, nothing stored
	}
	if got := string(p.TakeOutput()); got != want {
		return fmt.Errorf("well-formed commands on a second connection after the stream were answered %q, want %q", got, want)
	}
	if pl := panicLines(theHub.take()); len(pl) > 0 {
		return fmt.Errorf("the server recovered from a panic while serving the probe: %s", pl[0])
	}
	if e := waitRotationFlushes(); e != nil {
		return e
	}
	srv.hstore.VerifFlush(true)
	if msg := counters(); msg != "" {
		return fmt.Errorf("accounting not zero at quiescence: %s", msg)
	}
	return nil
}

var rawTokens = []string{"get", "gets", "set", "add", "replace", "cas", "append", "prepend", "incr", "decr", "delete", "stats", "version",
	"verbosity", "flush_all", "quit", "noreply", "optimize_stat", "gc", "touch", "GET", " ", " ", " ", " ", "  ", "\r\n", "\r\n", "\r\n", "\r\n", "\n", "\r",
	"0", "1", "2", "3", "5", "10", "64", "65", "100", "700", "701", "2048", "2049", "4096", "4097", "-1", "4294967295", "4294967296", "18446744073709551616",
	"k", "key1", "key2", "counter", "@", "@0", "@f", "@00", "@@", "@@0123456789abcdef", "?", "?k", "??k", "?key1", "??key1",
	"abc", "\x00", "\xff", "x\r\ny", "END", "STORED", "VALUE"}

func genRawBytes(t *rapid.T) []byte {
	var b []byte
	n := rapid.IntRange(1, 60).Draw(t, "ntok")
	for i := 0; i < n; i++ {
		switch rapid.IntRange(0, 14).Draw(t, "tk") {
		case 0: // a well-formed storage command
			verb := rapid.SampledFrom([]string{"set", "add", "replace", "append", "prepend", "cas"}).Draw(t, "verb")
			l := rapid.SampledFrom([]int{0, 1, 3, 63, 64, 65, 100, 101, 699, 700, 701, 2048, 2049, 4096, 4097}).Draw(t, "len")
			key := rapid.SampledFrom([]string{"k", "key1", "key2", "counter", "?k", "@0"}).Draw(t, "key")
			tail := ""
			if verb == "cas" {
				tail = " 7"
			}
			if rapid.IntRange(0, 5).Draw(t, "nr") == 0 {
				tail += " noreply"
			}
			b = append(b, fmt.Sprintf("%s %s %d 0 %d%s\r\n", verb, key, rapid.SampledFrom([]int{0, 0, 516, 16, 65536}).Draw(t, "flag"), l, tail)...)
			body := bytes.Repeat([]byte{byte('a' + i%26)}, l)
			if verb == "set" && key == "counter" {
				body = []byte(strconv.Itoa(l))
			}
			switch rapid.IntRange(0, 7).Draw(t, "bodymode") {
			case 0: // short body
				if len(body) > 0 {
					body = body[:len(body)/2]
				}
			case 1: // bad terminator
				b = append(b, body...)
				b = append(b, "xx"...)
				continue
			}
			b = append(b, body...)
			b = append(b, "\r\n"...)
		case 1: // a long line (the connection's read buffer is 4 KB)
			b = append(b, "get"...)
			nk := rapid.SampledFrom([]int{20, 140, 400}).Draw(t, "nkeys")
			for j := 0; j < nk; j++ {
				b = append(b, fmt.Sprintf(" key%027d", j%3)...)
			}
			b = append(b, "\r\n"...)
		case 2:
			b = append(b, rapid.SliceOfN(rapid.Byte(), 1, 12).Draw(t, "junk")...)
		default:
			b = append(b, rawTokens[rapid.IntRange(0, len(rawTokens)-1).Draw(t, "tok")]...)
		}
	}
	return b
}

func TestVerif_C11_RawStream(t *testing.T) {
	st := verifkit.StatsFor("TestVerif_C11_RawStream")
	defer verifkit.ClearCurrent()
	rapid.Check(t, func(t *rapid.T) {
		rc := &rawCase{Cfg: rapid.IntRange(0, len(rawCfgs)-1).Draw(t, "cfg")}
		rc.Data = genRawBytes(t)
		ns := rapid.IntRange(0, 3).Draw(t, "nsplits")
		for i := 0; i < ns; i++ {
			rc.Splits = append(rc.Splits, rapid.IntRange(0, len(rc.Data)).Draw(t, "split"))
		}
		sortInts(rc.Splits)
		verifkit.SetCurrent("C11", "TestVerif_C11_RawStream", rc)
		err := runRaw(rc)
		if err != nil && isInfra(err) {
			t.Fatalf("%v", err)
		}
		labels := []string{}
		if len(rc.Splits) > 0 {
			labels = append(labels, "split_write")
		}
		if len(rc.Data) > 4096 {
			labels = append(labels, "stream>4K")
		}
		if bytes.Contains(rc.Data, []byte("\r\n")) {
			labels = append(labels, "has_complete_line")
		}
		st.Case(labels, err == nil && bytes.Contains(rc.Data, []byte("\r\n")) && len(rc.Data) > 20, rc.Data, map[string]interface{}{"data": string(clip(rc.Data)), "len": len(rc.Data), "cfg": rc.Cfg})
		if err != nil {
			verifkit.Fail("C11", "TestVerif_C11_RawStream", rc, err.Error())
			t.Fatalf("%v", err)
		}
	})
}

func sortInts(a []int) {
	for i := 1; i < len(a); i++ {
		for j := i; j > 0 && a[j] < a[j-1]; j-- {
			a[j], a[j-1] = a[j-1], a[j]
		}
	}
}

// Native fuzz target (thorough tier): the first byte selects the configuration, the rest is the client's stream.
func FuzzVerif_C11_Stream(f *testing.F) {
	st := verifkit.StatsFor("FuzzVerif_C11_Stream")
	seeds := []string{
		"\x00set k 0 0 3\r\nabc\r\nget k\r\n",
		"\x00get k key1 key2\r\ngets k\r\ndelete k\r\nincr counter 5\r\n",
		"\x01set key1 16 0 701\r\n" + strings.Repeat("x", 701) + "\r\nget key1\r\n",
		"\x02cas k 0 0 1 7\r\nv\r\nappend k 0 0 1\r\nx\r\nprepend k 0 0 1\r\ny\r\ndecr k 1\r\n",
		"\x00get @\r\nget @0\r\nget @@0123456789abcdef\r\nget ?k\r\nget ??k\r\n",
		"\x00stats\r\nversion\r\nverbosity 1\r\nflush_all\r\noptimize_stat\r\ngc @ 0 1\r\nquit\r\n",
		"\x01set k 0 0 2049\r\n" + strings.Repeat("y", 2049) + "\r\nset k 0 0 -1\r\nset k 0 0 4294967296\r\nset k a b c\r\n",
		"\x00set k 0 0 3 noreply\r\nabc\r\nget k\nget k\r\n\r\n \r\nget " + strings.Repeat("k", 300) + "\r\n",
	}
	for _, s := range seeds {
		f.Add([]byte(s))
	}
	f.Fuzz(func(t *testing.T, data []byte) {
		if len(data) == 0 {
			return
		}
		if len(data) > 20000 {
			data = data[:20000]
		}
		rc := &rawCase{Cfg: int(data[0]), Data: data[1:]}
		if len(rc.Data) > 2 {
			rc.Splits = []int{int(rc.Data[0]) % len(rc.Data)} // one split position derived from the input itself
		}
		err := runRaw(rc)
		if err != nil && isInfra(err) {
			t.Skip()
		}
		st.Case([]string{"fuzz_input"}, err == nil && bytes.Contains(rc.Data, []byte("\r\n")), data, map[string]interface{}{"len": len(data), "head": string(clip(rc.Data))})
		if err != nil {
			verifkit.Fail("C11", "FuzzVerif_C11_Stream", rc, err.Error())
			t.Fatalf("%v", err)
		}
	})
}

func init() {
	for _, name := range []string{"TestVerif_C11_RawStream", "FuzzVerif_C11_Stream"} {
		replayers[name] = func(raw json.RawMessage) error {
			rc := &rawCase{}
			if err := json.Unmarshal(raw, rc); err != nil {
				return err
			}
			if len(rc.Input) > 0 {
				rc = &rawCase{Cfg: int(rc.Input[0]), Data: rc.Input[1:]}
			}
			return runRaw(rc)
		}
	}
}
