package memcache

// C11 (last sentence): serialising a request or reply and parsing it back yields the same request or reply.
//
// Domain = the requests Request.Write can serialise (get/gets/delete/quit/version/stats/flush_all, the six storage
// verbs with an item, incr/decr with a decimal argument) and the replies Response.Write can serialise (status lines
// with or without a message, VALUE blocks with or without cas, counters, STAT blocks). Several objects are written
// into ONE stream and read back one after the other, so that a parser that consumes too little or too much is seen
// at the next object ("left in sync with the byte stream").

import (
	"bufio"
	"bytes"
	"encoding/json"
	"fmt"
	"sort"
	"strconv"
	"strings"
	"testing"

	"github.com/douban/gobeansdb/cmem"
	"github.com/douban/gobeansdb/config"
	"github.com/douban/gobeansdb/verifkit"
	"pgregory.net/rapid"
)

type rtReq struct {
	Cmd     string   `json:"cmd"`
	Keys    []string `json:"keys"`
	Flag    int      `json:"flag"`
	Exptime int      `json:"exptime"`
	Cas     int      `json:"cas"`
	Body    []byte   `json:"body"`
	NoReply bool     `json:"noreply"`
}

type rtItem struct {
	Key  string `json:"key"`
	Flag int    `json:"flag"`
	Cas  int    `json:"cas"`
	Body []byte `json:"body"`
}

type rtResp struct {
	Status  string     `json:"status"`
	Msg     string     `json:"msg"`
	Cas     bool       `json:"cas"`
	Noreply bool       `json:"noreply"`
	Items   []rtItem   `json:"items"`
	Stats   [][]string `json:"stats"`
}

type rtCase struct {
	BodyInC int64    `json:"body_c_str"`
	Reqs    []rtReq  `json:"reqs"`
	Resps   []rtResp `json:"resps"`
}

func isStorageVerb(c string) bool {
	switch c {
	case "set", "add", "replace", "cas", "append", "prepend":
		return true
	}
	return false
}

func rtSetup(c *rtCase) {
	mc := config.DefaultMCConfig
	mc.BodyMax = 1 << 20
	mc.BodyBig = 1 << 20
	mc.BodyInC = c.BodyInC
	mc.MaxReq = 4
	config.MCConf = mc
	InitTokens()
	cmem.DBRL.GetData = cmem.ResourceLimiter{}
	cmem.DBRL.SetData = cmem.ResourceLimiter{}
	cmem.AllocRL = cmem.ResourceLimiter{}
}

func rtRun(c *rtCase) (err error) {
	defer func() {
		if e := recover(); e != nil {
			err = fmt.Errorf("panic: %v", e)
		}
	}()
	rtSetup(c)
	// ---- requests: all written into one stream
	var buf bytes.Buffer
	for i := range c.Reqs {
		q := &c.Reqs[i]
		req := &Request{Cmd: q.Cmd, Keys: append([]string(nil), q.Keys...), NoReply: q.NoReply}
		if isStorageVerb(q.Cmd) {
			req.Item = &Item{Flag: q.Flag, Exptime: q.Exptime, Cas: q.Cas}
			req.Item.Body = append([]byte{}, q.Body...)
		} else if q.Cmd == "incr" || q.Cmd == "decr" {
			req.Item = &Item{}
			req.Item.Body = append([]byte{}, q.Body...)
		}
		if e := req.Write(&buf); e != nil {
			return fmt.Errorf("request %d (%s): Write failed: %v", i, q.Cmd, e)
		}
	}
	rd := bufio.NewReader(bytes.NewReader(buf.Bytes()))
	for i := range c.Reqs {
		q := &c.Reqs[i]
		got := &Request{}
		e := got.Read(rd)
		if e != nil {
			return fmt.Errorf("request %d: Read of the serialised %q request fails: %v", i, q.Cmd, e)
		}
		// give back what the parser took (token, set accounting, buffer); rtSetup starts every case from zero
		release := func() {
			if got.Working {
				RL.Put(got)
			}
			if got.Item != nil && isStorageVerb(got.Cmd) {
				cmem.DBRL.SetData.SubSizeAndCount(got.Item.CArray.Cap)
				got.Item.CArray.Free()
			}
		}
		var diffs []string
		if got.Cmd != q.Cmd {
			diffs = append(diffs, fmt.Sprintf("cmd %q, wrote %q", got.Cmd, q.Cmd))
		}
		if strings.Join(got.Keys, "\x00") != strings.Join(q.Keys, "\x00") || len(got.Keys) != len(q.Keys) {
			diffs = append(diffs, fmt.Sprintf("keys %q, wrote %q", got.Keys, q.Keys))
		}
		if got.NoReply != q.NoReply {
			diffs = append(diffs, fmt.Sprintf("noreply %v, wrote %v", got.NoReply, q.NoReply))
		}
		if isStorageVerb(q.Cmd) {
			if got.Item == nil {
				diffs = append(diffs, "no item")
			} else {
				if got.Item.Flag != q.Flag || got.Item.Exptime != q.Exptime {
					diffs = append(diffs, fmt.Sprintf("flag/exptime %d/%d, wrote %d/%d", got.Item.Flag, got.Item.Exptime, q.Flag, q.Exptime))
				}
				if !bytes.Equal(got.Item.Body, q.Body) {
					diffs = append(diffs, fmt.Sprintf("body of %d bytes, wrote %d bytes (equal prefix: %v)", len(got.Item.Body), len(q.Body), bytes.HasPrefix(q.Body, got.Item.Body)))
				}
				if q.Cmd == "cas" && got.Item.Cas != q.Cas {
					diffs = append(diffs, fmt.Sprintf("cas %d, wrote %d", got.Item.Cas, q.Cas))
				}
			}
		}
		if q.Cmd == "incr" || q.Cmd == "decr" {
			if got.Item == nil || !bytes.Equal(got.Item.Body, q.Body) {
				diffs = append(diffs, "counter argument differs")
			}
			cmem.DBRL.SetData.SubCount(1)
		}
		release()
		if len(diffs) > 0 {
			return fmt.Errorf("request %d (%s) read back differently: %s", i, q.Cmd, strings.Join(diffs, "; "))
		}
	}
	if rd.Buffered() != 0 {
		return fmt.Errorf("%d bytes left in the stream after all %d requests were read back", rd.Buffered(), len(c.Reqs))
	}
	if _, e := rd.ReadByte(); e == nil {
		return fmt.Errorf("bytes left in the stream after all %d requests were read back", len(c.Reqs))
	}

	// ---- replies
	buf.Reset()
	nWritten := 0
	for i := range c.Resps {
		p := &c.Resps[i]
		resp := &Response{Status: p.Status, Msg: p.Msg, Cas: p.Cas, Noreply: p.Noreply}
		if p.Status == "VALUE" {
			resp.Items = map[string]*Item{}
			for _, it := range p.Items {
				item := &Item{Flag: it.Flag, Cas: it.Cas}
				item.Body = append([]byte{}, it.Body...)
				resp.Items[it.Key] = item
			}
		}
		if p.Status == "STAT" {
			var sb strings.Builder
			for _, kv := range p.Stats {
				fmt.Fprintf(&sb, "STAT %s %s\r\n", kv[0], kv[1])
			}
			resp.Msg = sb.String()
		}
		before := buf.Len()
		if e := resp.Write(&buf); e != nil {
			return fmt.Errorf("reply %d (%s): Write failed: %v", i, p.Status, e)
		}
		if p.Noreply {
			if buf.Len() != before {
				return fmt.Errorf("reply %d: a noreply reply wrote %d bytes", i, buf.Len()-before)
			}
			continue
		}
		nWritten++
	}
	rd = bufio.NewReader(bytes.NewReader(buf.Bytes()))
	for i := range c.Resps {
		p := &c.Resps[i]
		if p.Noreply {
			continue
		}
		got := &Response{}
		if e := got.Read(rd); e != nil {
			got.CleanBuffer()
			return fmt.Errorf("reply %d: Read of the serialised %q reply fails: %v", i, p.Status, e)
		}
		var diffs []string
		switch p.Status {
		case "VALUE":
			// the client-side object ends on the END line; its content is the item set
			if got.Status != "END" {
				diffs = append(diffs, fmt.Sprintf("status %q after a VALUE block", got.Status))
			}
			if len(got.Items) != len(p.Items) {
				diffs = append(diffs, fmt.Sprintf("%d items, wrote %d", len(got.Items), len(p.Items)))
			}
			for _, it := range p.Items {
				g := got.Items[it.Key]
				if g == nil {
					diffs = append(diffs, fmt.Sprintf("item %q missing", it.Key))
					continue
				}
				if g.Flag != it.Flag || !bytes.Equal(g.Body, it.Body) {
					diffs = append(diffs, fmt.Sprintf("item %q: flag %d / %d bytes, wrote flag %d / %d bytes", it.Key, g.Flag, len(g.Body), it.Flag, len(it.Body)))
				}
				if p.Cas && g.Cas != it.Cas {
					diffs = append(diffs, fmt.Sprintf("item %q: cas %d, wrote %d", it.Key, g.Cas, it.Cas))
				}
			}
		case "STAT":
			if got.Status != "END" {
				diffs = append(diffs, fmt.Sprintf("status %q after a STAT block", got.Status))
			}
			want := map[string]string{}
			for _, kv := range p.Stats {
				want[kv[0]] = kv[1]
			}
			if len(got.Items) != len(want) {
				diffs = append(diffs, fmt.Sprintf("%d stats, wrote %d", len(got.Items), len(want)))
			}
			for k, v := range want {
				if g := got.Items[k]; g == nil || string(g.Body) != v {
					diffs = append(diffs, fmt.Sprintf("stat %q differs", k))
				}
			}
		case "INCR", "DECR":
			// a counter reply is a bare number; the parser names it INCR
			if got.Status != "INCR" || got.Msg != p.Msg {
				diffs = append(diffs, fmt.Sprintf("status %q msg %q, wrote counter %q", got.Status, got.Msg, p.Msg))
			}
		default:
			if got.Status != p.Status {
				diffs = append(diffs, fmt.Sprintf("status %q, wrote %q", got.Status, p.Status))
			}
			if got.Msg != p.Msg {
				diffs = append(diffs, fmt.Sprintf("message %q, wrote %q", got.Msg, p.Msg))
			}
			if len(got.Items) != 0 {
				diffs = append(diffs, "items in a status reply")
			}
		}
		if p.Status == "STAT" {
			got.Items = nil // STAT items own no buffers
		} else {
			got.CleanBuffer()
		}
		if len(diffs) > 0 {
			sort.Strings(diffs)
			return fmt.Errorf("reply %d (%s) read back differently: %s", i, p.Status, strings.Join(diffs, "; "))
		}
	}
	if rd.Buffered() != 0 {
		return fmt.Errorf("%d bytes left in the stream after all %d replies were read back", rd.Buffered(), nWritten)
	}
	// the parsers took tokens and accounted buffers: everything was given back above
	if len(RL.Chan) != cap(RL.Chan) {
		return fmt.Errorf("request tokens: %d of %d available after the round trip", len(RL.Chan), cap(RL.Chan))
	}
	if n := cmem.DBRL.GetData.Count; n != 0 || cmem.DBRL.GetData.Size != 0 {
		return fmt.Errorf("get-buffer accounting after reading and cleaning replies: count %d size %d", n, cmem.DBRL.GetData.Size)
	}
	if cmem.DBRL.SetData.Count != 0 || cmem.DBRL.SetData.Size != 0 {
		return fmt.Errorf("set-buffer accounting after reading and releasing requests: count %d size %d", cmem.DBRL.SetData.Count, cmem.DBRL.SetData.Size)
	}
	if cmem.AllocRL.Count != 0 || cmem.AllocRL.Size != 0 {
		return fmt.Errorf("C allocations after the round trip: count %d size %d", cmem.AllocRL.Count, cmem.AllocRL.Size)
	}
	return nil
}

var rtKeyChars = []byte("abcdefghijklmnopqrstuvwxyzABCXYZ0123456789_-./:;,=+%#&*()[]{}<>|~!$^'\"\\`?@")

func genRTKey(t *rapid.T, label string) string {
	switch rapid.IntRange(0, 7).Draw(t, label+"shape") {
	case 0:
		return string(rtKeyChars[rapid.IntRange(0, len(rtKeyChars)-1).Draw(t, label+"c")])
	case 1:
		return strings.Repeat("k", 250)
	case 2:
		return "noreply"
	case 3:
		return "键-" + strconv.Itoa(rapid.IntRange(0, 9).Draw(t, label+"n"))
	case 4:
		return string([]byte{'h', byte(rapid.IntRange(0x80, 0xff).Draw(t, label+"hb")), 'x'})
	default:
		n := rapid.IntRange(1, 30).Draw(t, label+"n")
		b := make([]byte, n)
		for i := range b {
			b[i] = rtKeyChars[rapid.IntRange(0, len(rtKeyChars)-1).Draw(t, label+"c")]
		}
		return string(b)
	}
}

func genRTBody(t *rapid.T, label string) []byte {
	switch rapid.IntRange(0, 8).Draw(t, label+"bshape") {
	case 0:
		return []byte{}
	case 1:
		return []byte("\r\n")
	case 2:
		return []byte("END\r\n")
	case 3:
		return []byte("x\r\nSTORED\r\nget a\r\n")
	case 4:
		n := rapid.IntRange(1, 6000).Draw(t, label+"n")
		b := make([]byte, n)
		s := uint32(rapid.IntRange(1, 1000).Draw(t, label+"salt"))
		for i := range b {
			s ^= s << 13
			s ^= s >> 17
			s ^= s << 5
			b[i] = byte(s)
		}
		return b
	case 5:
		return []byte(strings.Repeat("VALUE k 0 1\r\n", rapid.IntRange(1, 5).Draw(t, label+"n")))
	default:
		return rapid.SliceOfN(rapid.Byte(), 0, 80).Draw(t, label+"bytes")
	}
}

func genRTInt(t *rapid.T, label string, neg bool) int {
	switch rapid.IntRange(0, 5).Draw(t, label+"ishape") {
	case 0, 1:
		return 0
	case 2:
		return rapid.IntRange(1, 300).Draw(t, label+"i")
	case 3:
		if neg {
			return -rapid.IntRange(1, 1<<31).Draw(t, label+"i")
		}
		return 1 << 31
	case 4:
		return 1<<32 - 1
	default:
		return rapid.IntRange(0, 1<<62).Draw(t, label+"i")
	}
}

func genRTReq(t *rapid.T) rtReq {
	q := rtReq{}
	q.Cmd = rapid.SampledFrom([]string{"get", "gets", "delete", "quit", "version", "stats", "flush_all",
		"set", "set", "add", "replace", "cas", "cas", "append", "prepend", "incr", "decr"}).Draw(t, "cmd")
	switch q.Cmd {
	case "get", "gets":
		n := rapid.IntRange(1, 5).Draw(t, "nkeys")
		for i := 0; i < n; i++ {
			q.Keys = append(q.Keys, genRTKey(t, fmt.Sprintf("k%d", i)))
		}
	case "delete":
		q.Keys = []string{genRTKey(t, "k")}
		q.NoReply = rapid.Bool().Draw(t, "noreply")
	case "stats":
		n := rapid.IntRange(0, 3).Draw(t, "nkeys")
		for i := 0; i < n; i++ {
			q.Keys = append(q.Keys, genRTKey(t, fmt.Sprintf("k%d", i)))
		}
	case "quit", "version", "flush_all":
	case "incr", "decr":
		q.Keys = []string{genRTKey(t, "k")}
		q.Body = []byte(strconv.Itoa(genRTInt(t, "delta", true)))
		q.NoReply = rapid.Bool().Draw(t, "noreply")
	default:
		q.Keys = []string{genRTKey(t, "k")}
		q.Flag = genRTInt(t, "flag", false)
		q.Exptime = genRTInt(t, "exp", true)
		q.Body = genRTBody(t, "")
		q.NoReply = rapid.Bool().Draw(t, "noreply")
		if q.Cmd == "cas" {
			q.Cas = genRTInt(t, "cas", false)
			if rapid.IntRange(0, 3).Draw(t, "cas=len") == 0 {
				q.Cas = len(q.Body)
			}
		}
	}
	return q
}

func genRTResp(t *rapid.T) rtResp {
	p := rtResp{}
	p.Status = rapid.SampledFrom([]string{"VALUE", "VALUE", "VALUE", "STORED", "NOT_STORED", "DELETED", "NOT_FOUND", "OK", "END",
		"ERROR", "CLIENT_ERROR", "SERVER_ERROR", "INCR", "DECR", "STAT"}).Draw(t, "status")
	p.Noreply = rapid.IntRange(0, 7).Draw(t, "noreply") == 0
	switch p.Status {
	case "VALUE":
		p.Cas = rapid.Bool().Draw(t, "withcas")
		n := rapid.IntRange(0, 4).Draw(t, "nitems")
		seen := map[string]bool{}
		for i := 0; i < n; i++ {
			k := genRTKey(t, fmt.Sprintf("k%d", i))
			if seen[k] {
				continue
			}
			seen[k] = true
			it := rtItem{Key: k, Flag: genRTInt(t, fmt.Sprintf("flag%d", i), false), Body: genRTBody(t, fmt.Sprintf("b%d", i))}
			if p.Cas {
				it.Cas = genRTInt(t, fmt.Sprintf("cas%d", i), false)
			}
			p.Items = append(p.Items, it)
		}
	case "ERROR", "CLIENT_ERROR", "SERVER_ERROR":
		p.Msg = rapid.SampledFrom([]string{"", "oops", "invalid cmd", "value too large", "key length error", "bad data chunk",
			"error processing the request"}).Draw(t, "msg")
	case "INCR", "DECR":
		p.Msg = strconv.Itoa(rapid.IntRange(0, 1<<62).Draw(t, "n"))
	case "STAT":
		n := rapid.IntRange(0, 4).Draw(t, "nstats")
		seen := map[string]bool{}
		for i := 0; i < n; i++ {
			k := rapid.SampledFrom([]string{"pid", "uptime", "curr_items", "cmd_get", "rusage_user", "version"}).Draw(t, fmt.Sprintf("s%d", i))
			if seen[k] {
				continue
			}
			seen[k] = true
			p.Stats = append(p.Stats, []string{k, rapid.SampledFrom([]string{"0", "17", "1.25", "0.1.0"}).Draw(t, fmt.Sprintf("v%d", i))})
		}
	}
	return p
}

func TestVerif_C11_RoundTrip(t *testing.T) {
	st := verifkit.StatsFor("TestVerif_C11_RoundTrip")
	rapid.Check(t, func(t *rapid.T) {
		c := &rtCase{BodyInC: rapid.SampledFrom([]int64{0, 64, 4096}).Draw(t, "body_c_str")}
		nq := rapid.IntRange(0, 5).Draw(t, "nreq")
		for i := 0; i < nq; i++ {
			c.Reqs = append(c.Reqs, rapid.Custom(genRTReq).Draw(t, fmt.Sprintf("req%d", i)))
		}
		np := rapid.IntRange(0, 5).Draw(t, "nresp")
		for i := 0; i < np; i++ {
			c.Resps = append(c.Resps, rapid.Custom(genRTResp).Draw(t, fmt.Sprintf("resp%d", i)))
		}
		verifkit.SetCurrent("C11", "TestVerif_C11_RoundTrip", c)
		err := rtRun(c)
		labels := []string{}
		seen := map[string]bool{}
		binary := false
		for _, q := range c.Reqs {
			if !seen["req:"+q.Cmd] {
				seen["req:"+q.Cmd] = true
				labels = append(labels, "req:"+q.Cmd)
			}
			if bytes.Contains(q.Body, []byte("\r\n")) {
				binary = true
			}
		}
		for _, p := range c.Resps {
			if !seen["resp:"+p.Status] {
				seen["resp:"+p.Status] = true
				labels = append(labels, "resp:"+p.Status)
			}
			for _, it := range p.Items {
				if bytes.Contains(it.Body, []byte("\r\n")) {
					binary = true
				}
			}
		}
		if binary {
			labels = append(labels, "body_with_crlf")
		}
		if len(c.Reqs)+len(c.Resps) >= 2 {
			labels = append(labels, "several_objects_in_one_stream")
		}
		b, _ := json.Marshal(c)
		st.Case(labels, binary && len(c.Reqs)+len(c.Resps) >= 2, b, c)
		if err != nil {
			verifkit.Fail("C11", "TestVerif_C11_RoundTrip", c, err.Error())
			t.Fatalf("%v", err)
		}
	})
	verifkit.ClearCurrent()
}

func init() {
	replayers["TestVerif_C11_RoundTrip"] = func(raw json.RawMessage) error {
		c := &rtCase{}
		if err := json.Unmarshal(raw, c); err != nil {
			return err
		}
		return rtRun(c)
	}
}
