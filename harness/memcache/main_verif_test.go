package memcache

import (
	"encoding/json"
	"fmt"
	"io"
	"os"
	"sync"
	"testing"

	"github.com/douban/gobeansdb/loghub"
	"github.com/douban/gobeansdb/verifkit"
)

var replayers = map[string]func(raw json.RawMessage) error{}

func TestMain(m *testing.M) {
	installQuietLog()
	rc := m.Run()
	verifkit.WriteStats()
	os.Exit(rc)
}

func TestVerifReplay(t *testing.T) {
	path := os.Getenv("VERIF_REPLAY")
	if path == "" {
		t.Skip("VERIF_REPLAY not set")
	}
	ff, err := verifkit.LoadFail(path)
	if err != nil {
		t.Fatalf("cannot load %s: %v", path, err)
	}
	f := replayers[ff.Check]
	if f == nil {
		t.Fatalf("no replayer for check %q", ff.Check)
	}
	if err := f(ff.Case); err != nil {
		t.Fatalf("replay of %s fails: %v", ff.Check, err)
	}
	fmt.Println("replay ok:", ff.Check)
}

// quiet log hub: the client-side parser logs every error reply it reads at ERROR level; FATAL exits 3.
type quietHub struct {
	mu sync.Mutex
}

func (h *quietHub) Log(name string, level int, file string, line int, msg string) {
	if level == loghub.FATAL {
		fmt.Fprintf(os.Stderr, "FATAL %s:%d %s\n", file, line, msg)
		os.Exit(3)
	}
}
func (h *quietHub) Reopen(path string) error           { return nil }
func (h *quietHub) GetLastLog() []byte                 { return nil }
func (h *quietHub) DumpBuffer(all bool, out io.Writer) {}

func installQuietLog() {
	loghub.ErrorLogger.Hub = &quietHub{}
	loghub.ErrorLogger.SetLevel(loghub.FATAL)
}
