package store

// C14: hint files - faithful round trip, total lookup, correct merge.

import (
	"encoding/json"
	"fmt"
	"os"
	"path/filepath"
	"sort"
	"testing"

	"github.com/douban/gobeansdb/verifkit"
	"pgregory.net/rapid"
)

type c14Item struct {
	Hash   uint64 `json:"h"`
	Key    string `json:"k"`
	Ver    int32  `json:"ver"`
	Vhash  uint16 `json:"vh"`
	Offset uint32 `json:"off"` // multiple of 256
	RecSz  uint32 `json:"rs"`
}

type c14Case struct {
	IndexInterval int64       `json:"ii"`
	NoMerged      bool        `json:"nomerged,omitempty"`
	Files         [][]c14Item `json:"files"` // file i = hint of data chunk Chunks[i]; items in set order (duplicates allowed: last wins)
	Chunks        []int       `json:"chunks"`
	Absent        []c14Item   `json:"absent"` // extra lookups (hash,key) expected absent unless present by chance
	// Big: one more source file (data chunk 990) with N items described compactly (expanded deterministically): hint
	// files with thousands of index entries (the index is kept in rows of 4096 entries)
	Big *c14Big `json:"big,omitempty"`
}

type c14Big struct {
	N      int    `json:"n"`
	KeyLen int    `json:"keylen"`
	Seed   uint64 `json:"seed"`
	Dense  bool   `json:"dense"` // consecutive hashes instead of pseudo-random ones
	Pairs  int    `json:"pairs"` // every Pairs-th item shares its hash with its predecessor (0 = never)
}

func (b *c14Big) expand() []c14Item {
	items := make([]c14Item, 0, b.N)
	x := b.Seed | 1
	var prev uint64
	for i := 0; i < b.N; i++ {
		x ^= x << 13
		x ^= x >> 7
		x ^= x << 17
		h := x
		if b.Dense {
			h = b.Seed + uint64(i)
		}
		if b.Pairs > 0 && i > 0 && i%b.Pairs == 0 {
			h = prev
		}
		prev = h
		key := fmt.Sprintf("big%07d", i)
		for len(key) < b.KeyLen {
			key += "x"
		}
		items = append(items, c14Item{Hash: h, Key: key, Ver: int32(i%7 + 1), Vhash: uint16(i), Offset: uint32(i) << 8, RecSz: 256})
	}
	return items
}

type hk struct {
	h uint64
	k string
}

func c14Run(c *c14Case) (err error) {
	defer func() {
		if e := recover(); e != nil {
			err = panicToError(e)
		}
	}()
	dir := newHome()
	defer os.RemoveAll(dir)
	conf := &HStoreConfig{}
	conf.InitDefault()
	conf.Init()
	conf.Home = dir
	conf.IndexIntervalSize = c.IndexInterval
	conf.SplitCap = 1 << 16
	conf.NoMerged = c.NoMerged
	conf.NumBucket = 1
	conf.InitTree()
	Conf = conf

	type fileModel struct {
		items    map[hk]c14Item
		datasize uint32
		path     string
		chunk    int
	}
	var models []*fileModel
	var readers []*hintFileReader
	splitNo := map[int]int{}
	files, chunks := c.Files, c.Chunks
	if c.Big != nil {
		files = append(append([][]c14Item{}, c.Files...), c.Big.expand())
		chunks = append(append([]int{}, c.Chunks...), 990)
	}
	for fi, items := range files {
		if len(items) == 0 {
			continue // Dump is only called for non-empty buffers
		}
		fm := &fileModel{items: map[hk]c14Item{}, chunk: chunks[fi]}
		buf := NewHintBuffer()
		for _, it := range items {
			hi := newHintItem(it.Hash, it.Ver, it.Vhash, Position{0, it.Offset}, it.Key)
			if !buf.Set(hi, it.RecSz) {
				return infraf("hint buffer full")
			}
			fm.items[hk{it.Hash, it.Key}] = it
			if end := it.Offset + it.RecSz; end > fm.datasize {
				fm.datasize = end
			}
		}
		// several files may describe the same data chunk (hint splits): they are numbered in order of appearance
		fm.path = filepath.Join(dir, fmt.Sprintf("%03d.%03d.idx.s", fm.chunk, splitNo[fm.chunk]))
		splitNo[fm.chunk]++
		idx, err := buf.Dump(fm.path)
		if err != nil {
			return fmt.Errorf("Dump: %v", err)
		}
		// ---- (1) round trip: read back sequentially
		r := newHintFileReader(fm.path, fm.chunk, 4096)
		if err := r.open(); err != nil {
			return fmt.Errorf("open %s: %v", fm.path, err)
		}
		if r.datasize != fm.datasize {
			return fmt.Errorf("file %d: datasize read back %d, written %d", fi, r.datasize, fm.datasize)
		}
		var prev *HintItem
		seen := map[hk]bool{}
		n := 0
		for {
			it, err := r.next()
			if err != nil {
				return fmt.Errorf("file %d: sequential read error after %d items: %v", fi, n, err)
			}
			if it == nil {
				break
			}
			n++
			if prev != nil && !(prev.Keyhash < it.Keyhash || (prev.Keyhash == it.Keyhash && prev.Key < it.Key)) {
				return fmt.Errorf("file %d: items not in (hash,key) order: %016x %q then %016x %q", fi, prev.Keyhash, prev.Key, it.Keyhash, it.Key)
			}
			prev = it
			want, ok := fm.items[hk{it.Keyhash, it.Key}]
			if !ok {
				return fmt.Errorf("file %d: read back an item never written: %016x %q", fi, it.Keyhash, it.Key)
			}
			if it.Ver != want.Ver || it.Vhash != want.Vhash || it.Pos.Offset != want.Offset || it.Pos.ChunkID != 0 {
				return fmt.Errorf("file %d: item %016x %q read back as %+v, written %+v (last set wins)", fi, it.Keyhash, it.Key, it.HintItemMeta, want)
			}
			seen[hk{it.Keyhash, it.Key}] = true
		}
		r.close()
		if len(seen) != len(fm.items) {
			return fmt.Errorf("file %d: %d distinct items written, %d read back", fi, len(fm.items), len(seen))
		}
		// ---- (2) total lookup, through the index returned by Dump and through a freshly loaded one
		loaded, err := loadHintIndex(fm.path)
		if err != nil {
			return fmt.Errorf("loadHintIndex: %v", err)
		}
		if loaded.datasize != fm.datasize || loaded.numKey != len(fm.items) {
			return fmt.Errorf("file %d: loaded index meta datasize %d numKey %d, want %d %d", fi, loaded.datasize, loaded.numKey, fm.datasize, len(fm.items))
		}
		for _, ix := range []*hintFileIndex{idx, loaded} {
			// the sparse index itself: ascending hashes, strictly ascending offsets inside the item section
			for i, e := range ix.index {
				if e.offset < HINTFILE_HEAD_SIZE || (i > 0 && (e.offset <= ix.index[i-1].offset || e.keyhash < ix.index[i-1].keyhash)) {
					return fmt.Errorf("file %d: index entry %d of %d is {hash %016x, offset %d} after {hash %016x, offset %d}: the index is not ascending", fi, i, len(ix.index), e.keyhash, e.offset, ix.index[max0(i-1)].keyhash, ix.index[max0(i-1)].offset)
				}
			}
			for key, want := range fm.items {
				it, err := ix.get(key.h, key.k)
				if err != nil {
					return fmt.Errorf("file %d: lookup of present (%016x,%q) returned error %v", fi, key.h, key.k, err)
				}
				if it == nil {
					return fmt.Errorf("file %d: lookup of present (%016x,%q) found nothing (index entries %d)", fi, key.h, key.k, len(ix.index))
				}
				if it.Ver != want.Ver || it.Vhash != want.Vhash || it.Pos.Offset != want.Offset {
					return fmt.Errorf("file %d: lookup of (%016x,%q) = %+v, want %+v", fi, key.h, key.k, it.HintItemMeta, want)
				}
			}
			for _, a := range c.Absent {
				_, present := fm.items[hk{a.Hash, a.Key}]
				it, err := ix.get(a.Hash, a.Key)
				if err != nil {
					return fmt.Errorf("file %d: lookup of absent (%016x,%q) returned error %v (index entries %d, items %d)", fi, a.Hash, a.Key, err, len(ix.index), len(fm.items))
				}
				if (it != nil) != present {
					return fmt.Errorf("file %d: lookup of (%016x,%q): found=%v, present=%v", fi, a.Hash, a.Key, it != nil, present)
				}
			}
		}
		models = append(models, fm)
		readers = append(readers, newHintFileReader(fm.path, fm.chunk, 4096))
	}
	if len(models) == 0 {
		return nil
	}
	// ---- (3) merge
	dst := filepath.Join(dir, "merged.idx.m")
	ct := newCollisionTable()
	state := 0
	idx, err := merge(readers, dst, ct, &state, false)
	if err != nil {
		return fmt.Errorf("merge: %v", err)
	}
	// model: for each (hash,key) the entry with the greatest (chunk, offset)
	type ment struct {
		it    c14Item
		chunk int
	}
	want := map[hk]ment{}
	byHash := map[uint64]map[string]bool{}
	maxds := uint32(0)
	for _, fm := range models {
		if fm.datasize > maxds {
			maxds = fm.datasize
		}
		for key, it := range fm.items {
			old, ok := want[key]
			if !ok || fm.chunk > old.chunk || (fm.chunk == old.chunk && it.Offset > old.it.Offset) {
				want[key] = ment{it, fm.chunk}
			}
			if byHash[key.h] == nil {
				byHash[key.h] = map[string]bool{}
			}
			byHash[key.h][key.k] = true
		}
	}
	if !c.NoMerged {
		if idx == nil {
			return fmt.Errorf("merge returned no index although merged files are enabled")
		}
		r := newHintFileReader(dst, 0, 4096)
		if err := r.open(); err != nil {
			return fmt.Errorf("open merged: %v", err)
		}
		if r.datasize != maxds {
			return fmt.Errorf("merged datasize %d, want max of sources %d", r.datasize, maxds)
		}
		got := map[hk]bool{}
		var prev *HintItem
		for {
			it, err := r.next()
			if err != nil {
				return fmt.Errorf("merged: read error: %v", err)
			}
			if it == nil {
				break
			}
			if prev != nil && !(prev.Keyhash < it.Keyhash || (prev.Keyhash == it.Keyhash && prev.Key < it.Key)) {
				return fmt.Errorf("merged output not strictly ordered by (hash,key): %016x %q then %016x %q", prev.Keyhash, prev.Key, it.Keyhash, it.Key)
			}
			prev = it
			w, ok := want[hk{it.Keyhash, it.Key}]
			if !ok {
				return fmt.Errorf("merged output holds an unknown item %016x %q", it.Keyhash, it.Key)
			}
			if it.Pos.ChunkID != w.chunk || it.Pos.Offset != w.it.Offset || it.Ver != w.it.Ver || it.Vhash != w.it.Vhash {
				return fmt.Errorf("merged entry of (%016x,%q) = chunk %d off %d ver %d, want the greatest position: chunk %d off %d ver %d",
					it.Keyhash, it.Key, it.Pos.ChunkID, it.Pos.Offset, it.Ver, w.chunk, w.it.Offset, w.it.Ver)
			}
			got[hk{it.Keyhash, it.Key}] = true
		}
		r.close()
		if len(got) != len(want) {
			return fmt.Errorf("merged output has %d keys, want %d", len(got), len(want))
		}
		// lookups in the merged index
		for key, w := range want {
			it, err := idx.get(key.h, key.k)
			if err != nil || it == nil {
				return fmt.Errorf("merged lookup of present (%016x,%q): item %v err %v", key.h, key.k, it, err)
			}
			if it.Pos.ChunkID != w.chunk || it.Pos.Offset != w.it.Offset {
				return fmt.Errorf("merged lookup of (%016x,%q) = chunk %d off %d, want chunk %d off %d", key.h, key.k, it.Pos.ChunkID, it.Pos.Offset, w.chunk, w.it.Offset)
			}
		}
		for _, a := range c.Absent {
			_, present := want[hk{a.Hash, a.Key}]
			it, err := idx.get(a.Hash, a.Key)
			if err != nil {
				return fmt.Errorf("merged lookup of absent (%016x,%q) returned error %v", a.Hash, a.Key, err)
			}
			if (it != nil) != present {
				return fmt.Errorf("merged lookup of (%016x,%q): found=%v present=%v", a.Hash, a.Key, it != nil, present)
			}
		}
	} else if idx != nil {
		return fmt.Errorf("merge wrote a merged file although hint_no_merged is set")
	}
	// collision table: exactly the groups of >=2 distinct keys sharing a hash, each key with its latest position
	for h, keys := range byHash {
		if len(keys) < 2 {
			if _, ok := ct.Items[h]; ok {
				return fmt.Errorf("collision table lists hash %016x which has a single key", h)
			}
			continue
		}
		grp, ok := ct.Items[h]
		if !ok {
			return fmt.Errorf("collision group of hash %016x (%d keys) is missing from the collision table", h, len(keys))
		}
		if len(grp) != len(keys) {
			return fmt.Errorf("collision group %016x has %d keys in the table, want %d", h, len(grp), len(keys))
		}
		for k := range keys {
			it, ok := grp[k]
			w := want[hk{h, k}]
			if !ok {
				return fmt.Errorf("collision group %016x lacks key %q", h, k)
			}
			if it.Pos.ChunkID != w.chunk || it.Pos.Offset != w.it.Offset || it.Ver != w.it.Ver {
				return fmt.Errorf("collision table entry (%016x,%q) = chunk %d off %d, want latest chunk %d off %d", h, k, it.Pos.ChunkID, it.Pos.Offset, w.chunk, w.it.Offset)
			}
		}
	}
	for h := range ct.Items {
		if len(byHash[h]) < 2 {
			return fmt.Errorf("collision table lists hash %016x without a collision", h)
		}
	}
	return nil
}

func c14Gen(t *rapid.T) *c14Case {
	c := &c14Case{}
	c.IndexInterval = rapid.SampledFrom([]int64{32, 64, 300, 512, 1024, 4096}).Draw(t, "ii")
	c.NoMerged = rapid.IntRange(0, 5).Draw(t, "nomerged") == 0
	nfiles := rapid.IntRange(1, 8).Draw(t, "nfiles")
	maxItems := 120
	if verifkit.Thorough() {
		maxItems = 1500
	}
	// pools make duplicates across files and same-hash groups frequent
	npool := rapid.IntRange(1, 12).Draw(t, "npool")
	hashPool := make([]uint64, npool)
	for i := range hashPool {
		switch rapid.IntRange(0, 5).Draw(t, "hashclass") {
		case 0:
			hashPool[i] = 0
		case 1:
			hashPool[i] = ^uint64(0)
		case 2: // dense run
			hashPool[i] = 0x8000000000000000 + uint64(i)
		default:
			hashPool[i] = rapid.Uint64().Draw(t, "hash")
		}
	}
	keyGen := rapid.Custom(func(t *rapid.T) string {
		switch rapid.IntRange(0, 5).Draw(t, "keyclass") {
		case 0:
			return string(genKey(t, ""))
		case 1:
			return "a"
		case 2:
			return "b"
		default:
			return fmt.Sprintf("k%d", rapid.IntRange(0, 30).Draw(t, "kn"))
		}
	})
	itemGen := rapid.Custom(func(t *rapid.T) c14Item {
		it := c14Item{}
		if rapid.IntRange(0, 2).Draw(t, "pooled") > 0 {
			it.Hash = hashPool[rapid.IntRange(0, npool-1).Draw(t, "hp")]
		} else {
			it.Hash = rapid.Uint64().Draw(t, "hash")
		}
		it.Key = keyGen.Draw(t, "key")
		it.Ver = int32(rapid.IntRange(-5, 1000).Draw(t, "ver"))
		if it.Ver == 0 {
			it.Ver = 1
		}
		it.Vhash = uint16(rapid.IntRange(0, 65535).Draw(t, "vh"))
		it.Offset = uint32(rapid.IntRange(0, 1<<16).Draw(t, "off")) << 8
		it.RecSz = uint32(rapid.IntRange(1, 40).Draw(t, "rs")) << 8
		return it
	})
	chunk := 0
	for f := 0; f < nfiles; f++ {
		if f > 0 && rapid.IntRange(0, 2).Draw(t, "split_of_same_chunk") == 0 {
			chunk-- // another split of the previous file's data chunk
		} else {
			chunk += rapid.IntRange(0, 3).Draw(t, "gap")
		}
		lo := 1
		n := rapid.IntRange(lo, maxItems).Draw(t, "minitems")
		items := rapid.SliceOfN(itemGen, n, maxItems).Draw(t, "items")
		c.Files = append(c.Files, items)
		c.Chunks = append(c.Chunks, chunk)
		chunk++
	}
	// one position holds one record: the same (hash, key) in two splits of one chunk never carries the same offset
	// (inside a file the last set of a key wins: that is the item whose offset counts)
	used := map[int]map[hk]map[uint32]bool{}
	for fi := range c.Files {
		ck := c.Chunks[fi]
		if used[ck] == nil {
			used[ck] = map[hk]map[uint32]bool{}
		}
		last := map[hk]int{}
		for ii, it := range c.Files[fi] {
			last[hk{it.Hash, it.Key}] = ii
		}
		for k, ii := range last {
			it := &c.Files[fi][ii]
			if used[ck][k] == nil {
				used[ck][k] = map[uint32]bool{}
			}
			for used[ck][k][it.Offset] {
				it.Offset += uint32(fi+1) << 8
			}
			used[ck][k][it.Offset] = true
		}
	}
	// absent lookups of the four kinds
	var all []c14Item
	for _, f := range c.Files {
		all = append(all, f...)
	}
	sort.Slice(all, func(i, j int) bool { return all[i].Hash < all[j].Hash })
	if len(all) > 0 {
		minH, maxH := all[0].Hash, all[len(all)-1].Hash
		if minH > 0 {
			c.Absent = append(c.Absent, c14Item{Hash: minH - 1, Key: "below"}, c14Item{Hash: 0, Key: "zero"})
		}
		if maxH < ^uint64(0) {
			c.Absent = append(c.Absent, c14Item{Hash: maxH + 1, Key: "above"}, c14Item{Hash: ^uint64(0), Key: "max"})
		}
		for i := 0; i < 6; i++ {
			a := all[rapid.IntRange(0, len(all)-1).Draw(t, "absidx")]
			c.Absent = append(c.Absent, c14Item{Hash: a.Hash, Key: a.Key + "~other"}) // equal hash, different key
			if a.Hash < ^uint64(0) {
				c.Absent = append(c.Absent, c14Item{Hash: a.Hash + 1, Key: a.Key}) // between / next hash
			}
		}
		c.Absent = append(c.Absent, c14Item{Hash: minH + (maxH-minH)/2, Key: "middle"})
	}
	return c
}

func TestVerif_C14_HintFiles(t *testing.T) {
	st := verifkit.StatsFor("TestVerif_C14_HintFiles")
	rapid.Check(t, func(t *rapid.T) {
		c := c14Gen(t)
		err := c14Run(c)
		if err != nil && isInfra(err) {
			t.Fatalf("%v", err)
		}
		// labels
		shared, groups, total := false, false, 0
		seenKey := map[hk]int{}
		byHash := map[uint64]map[string]bool{}
		for fi, f := range c.Files {
			total += len(f)
			for _, it := range f {
				k := hk{it.Hash, it.Key}
				if prev, ok := seenKey[k]; ok && prev != fi {
					shared = true
				}
				seenKey[k] = fi
				if byHash[it.Hash] == nil {
					byHash[it.Hash] = map[string]bool{}
				}
				byHash[it.Hash][it.Key] = true
			}
		}
		for _, ks := range byHash {
			if len(ks) >= 2 {
				groups = true
			}
		}
		var labels []string
		if shared {
			labels = append(labels, "key_in_several_files")
		}
		if groups {
			labels = append(labels, "same_hash_group")
		}
		if len(c.Files) >= 2 {
			labels = append(labels, "multi_file")
		}
		seenChunk := map[int]bool{}
		for _, ck := range c.Chunks {
			if seenChunk[ck] {
				labels = append(labels, "several_splits_of_one_chunk")
				break
			}
			seenChunk[ck] = true
		}
		if total*30 > int(c.IndexInterval)*3 {
			labels = append(labels, "index>=3_entries")
		}
		if c.NoMerged {
			labels = append(labels, "no_merged")
		}
		sample := map[string]interface{}{"ii": c.IndexInterval, "files": len(c.Files), "items": total, "chunks": c.Chunks, "first_items": firstItems(c)}
		st.Case(labels, err == nil && shared && groups && total*30 > int(c.IndexInterval)*3, canon(c), sample)
		if err != nil {
			verifkit.Fail("C14", "TestVerif_C14_HintFiles", c, err.Error())
			t.Fatalf("%v", err)
		}
	})
}

func max0(i int) int {
	if i < 0 {
		return 0
	}
	return i
}

// Big index unit: one source file with thousands of items under a tiny index interval (every item gets an index
// entry), sizes around the multiples of the 4096-entry index rows, optionally merged with small generated files.
func TestVerif_C14_BigIndex(t *testing.T) {
	st := verifkit.StatsFor("TestVerif_C14_BigIndex")
	rapid.Check(t, func(t *rapid.T) {
		c := &c14Case{}
		if rapid.IntRange(0, 2).Draw(t, "withsmall") == 0 {
			c = c14Gen(t)
		}
		c.IndexInterval = rapid.SampledFrom([]int64{32, 64, 279, 300}).Draw(t, "big_ii")
		b := &c14Big{KeyLen: rapid.SampledFrom([]int{10, 10, 24, 60}).Draw(t, "keylen"), Seed: rapid.Uint64().Draw(t, "seed"),
			Dense: rapid.Bool().Draw(t, "dense"), Pairs: rapid.SampledFrom([]int{0, 0, 2, 7, 500}).Draw(t, "pairs")}
		switch rapid.IntRange(0, 5).Draw(t, "nclass") {
		case 0:
			b.N = 4096 + rapid.IntRange(-3, 3).Draw(t, "d")
		case 1:
			b.N = 8192 + rapid.IntRange(-3, 3).Draw(t, "d")
		case 2:
			b.N = 12288 + rapid.IntRange(-3, 3).Draw(t, "d")
		default:
			b.N = rapid.IntRange(3000, 14000).Draw(t, "n")
		}
		if b.Dense && b.Seed > ^uint64(0)-20000 {
			b.Seed -= 20000
		}
		c.Big = b
		// absent lookups inside the big file's hash range
		big := b.expand()
		for i := 0; i < 8; i++ {
			a := big[rapid.IntRange(0, len(big)-1).Draw(t, "absidx")]
			c.Absent = append(c.Absent, c14Item{Hash: a.Hash, Key: a.Key + "~other"}, c14Item{Hash: a.Hash + 1, Key: a.Key})
		}
		err := c14Run(c)
		if err != nil && isInfra(err) {
			t.Fatalf("%v", err)
		}
		labels := []string{fmt.Sprintf("index_rows=%d", b.N/4096+1)}
		if b.N > 4096 {
			labels = append(labels, "index>4096_entries")
		}
		if len(c.Files) > 0 {
			labels = append(labels, "merged_with_small_files")
		}
		st.Case(labels, err == nil && b.N > 4096 && c.IndexInterval <= 279, canon(c), map[string]interface{}{"big": b, "ii": c.IndexInterval, "small_files": len(c.Files)})
		if err != nil {
			verifkit.Fail("C14", "TestVerif_C14_BigIndex", c, err.Error())
			t.Fatalf("%v", err)
		}
	})
}

func firstItems(c *c14Case) []c14Item {
	if len(c.Files) == 0 {
		return nil
	}
	f := c.Files[0]
	if len(f) > 5 {
		f = f[:5]
	}
	return f
}

func init() {
	replayers["TestVerif_C14_BigIndex"] = func(raw json.RawMessage) error {
		c := &c14Case{}
		if err := json.Unmarshal(raw, c); err != nil {
			return err
		}
		return c14Run(c)
	}
	replayers["TestVerif_C14_HintFiles"] = func(raw json.RawMessage) error {
		c := &c14Case{}
		if err := json.Unmarshal(raw, c); err != nil {
			return err
		}
		return c14Run(c)
	}
}
