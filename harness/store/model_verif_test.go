package store

// Reference model and interpreter of generated histories (HStore API level).
// Used by C01, C02, C03, C08 (store part), C10 (store part), C13, C15, C18.

import (
	"bytes"
	"fmt"
	"os"
	"path/filepath"
	"sort"
	"strconv"
	"time"

	"github.com/douban/gobeansdb/quicklz"
	"github.com/douban/gobeansdb/verifkit"
)

// Op is one step of a history.
type Op struct {
	Kind string           `json:"op"`
	K    int              `json:"k,omitempty"`    // key index
	V    verifkit.ValSpec `json:"v,omitempty"`    // value (set)
	Flag uint32           `json:"flag,omitempty"` // client flags (set)
	Rev  int32            `json:"rev,omitempty"`  // explicit revision (set), 0 = auto
	// RevRel: Rev is relative to the key's current absolute version (resolved when the op runs; results < 1 mean auto)
	RevRel bool `json:"revrel,omitempty"`
	// Same: 1 = the key's current value and flags again, 2 = current value with the op's flags,
	// 3 = a value of the same length with the same first/last 512 bytes (equal 16-bit value hash) if the current one is > 1 KB
	Same  int  `json:"same,omitempty"`
	Delta int  `json:"delta,omitempty"` // incr
	Force bool `json:"force,omitempty"` // flush
	// reopen: which index files to delete. Mode: "none","all","hash","hints","last","subset"
	Mask    string `json:"mask,omitempty"`
	MaskSel uint64 `json:"sel,omitempty"` // bit i set => delete the i-th index file (mode subset)
	// Race: do not wait for a parked post-rotation flush before the shutdown: the process "exits" (directory image
	// taken) right after Close returned, and the store is restarted from that image.
	Race bool `json:"race,omitempty"`
	// Jump (reopen): while the store is down, the newest data file of each single-bucket store is renamed to an id that
	// is Jump higher (all index files removed: they are rebuilt): the layout of a store whose earlier files were
	// collected long ago, with file ids in the hundreds
	Jump int `json:"jump,omitempty"`
	// gc
	Bucket int  `json:"b,omitempty"`
	Begin  int  `json:"begin,omitempty"`
	End    int  `json:"end,omitempty"`
	Merge  bool `json:"merge,omitempty"`
	ViaAPI bool `json:"api,omitempty"`
	// NoFlush (gc): no forced flush before the pass (see doGC)
	NoFlush bool `json:"noflush,omitempty"`
	// gcpark: client operations placed at chosen steps of a GC pass that runs in its own goroutine
	Places []Placement `json:"places,omitempty"`
	// gcreq (C17): a request through HStore.GC with arbitrary arguments
	NoGCDays int    `json:"nogcdays,omitempty"`
	Pretend  bool   `json:"pretend,omitempty"`
	Double   string `json:"double,omitempty"` // "" | "parked" | "backtoback": a second request for the same bucket
}

// Placement parks the GC goroutine at the Nth occurrence of a hook point and runs Ops on the client thread meanwhile.
type Placement struct {
	Point  string `json:"point"`
	Nth    int    `json:"nth"`
	Ops    []Op   `json:"ops"`
	Cancel bool   `json:"cancel,omitempty"` // call CancelGC while parked
}

const (
	stAbsent = iota
	stLive
	stDeleted
)

type prevVal struct {
	val  []byte
	flag uint32
}

// mkey is the model state of one key.
type mkey struct {
	State int
	Val   []byte
	Flag  uint32
	// Vers is the set of admissible absolute versions the tree may currently hold for the key
	// (normally one element). 0 stands for "no entry" (a tombstone dropped by an index rebuild).
	Vers []int32
	// DataVer is the version carried by the newest data record of the key (differs from the tree
	// version only after a tree-only update: same-value explicit-revision set under check_vhash).
	DataVer int32
	Spec    verifkit.ValSpec
	Writes  int
}

func (m *mkey) has(v int32) bool {
	for _, x := range m.Vers {
		if x == v {
			return true
		}
	}
	return false
}

func (m *mkey) addVer(v int32) {
	if !m.has(v) {
		m.Vers = append(m.Vers, v)
	}
}

func mapVers(vs []int32, f func(int32) int32) []int32 {
	var out []int32
	for _, v := range vs {
		n := f(v)
		dup := false
		for _, o := range out {
			if o == n {
				dup = true
			}
		}
		if !dup {
			out = append(out, n)
		}
	}
	return out
}

func (m *mkey) oldVers() []int32 {
	if m.State == stAbsent {
		return []int32{0}
	}
	return m.Vers
}

// History is a complete generated case.
type History struct {
	Cfg Cfg  `json:"cfg"`
	Ops []Op `json:"ops"`
}

// runOpts selects oracle variants.
type runOpts struct {
	property     string
	collisions   bool // colliding keys present: versions of colliding keys are not compared
	noFinalSweep bool
	keepStore    bool // leave the store open in r.store at the end
	onStep       func(r *histRunner, i int, op *Op) error
	afterGC      func(r *histRunner, bucket, begin, end int, merge bool, before *gcBefore) error
	skipReopenGC bool
	beforeGC     func(r *histRunner)
	hookExtra    func(r *histRunner) func(name string, args ...interface{}) // installed after the hook state is reset
	noCloseAtEnd bool
}

type histRunner struct {
	h      *History
	opts   runOpts
	home   string
	store  *HStore
	model  []*mkey
	labels map[string]bool
	ts     uint32
	inGrp  []bool

	lastResolved         Op
	wroteNow             bool // the current op stored a new record for its key (colliding keys: refreshes stale bookkeeping)
	fresh                bool // C17: new records carry a timestamp one hour in the past instead of 1970
	clientWritesInGC     int
	preGC                []*mkey
	curOp                int
	wroteUnserved        map[int]bool
	readsAny             map[string]int
	listedAfter          int
	prevVals             map[int][]prevVal // colliding keys: every value ever acknowledged (for the C13-merge-stale exclusion)
	staleOK              map[int]string    // key -> id of the known finding that tolerates an older own value
	excluded             map[string]int
	collideWrites        int
	reads                map[string]int // residence -> count of checked reads of keys with >=1 overwrite/delete
	gcPasses             int
	gcReleased           int64
	gcKept               int64
	reopens              int
	lostByGCOnly         map[int]bool // colliding keys covered by C13-tombstone-sibling only once a GC pass has run
	passesWithGroupWrite map[int]int  // C05 collision unit: merge passes during which a client wrote a key of the group
	registeredOnWrite    map[int]bool // colliding keys last written while the collision table already knew their hash group
	crashes              int
	deletedFiles         int
}

func (r *histRunner) label(l string) { r.labels[l] = true }

// stamp returns the timestamp of the next record: 1970-based counters by default (always "old"), or one hour
// in the past once the history switched to fresh records (C17's age rule; far from any whole-day boundary).
func (r *histRunner) stamp() uint32 {
	if r.fresh {
		return uint32(time.Now().Unix() - 3600)
	}
	return r.ts
}

func newRunner(h *History, opts runOpts) *histRunner {
	r := &histRunner{h: h, opts: opts, labels: map[string]bool{}, reads: map[string]int{}, ts: 1000, excluded: map[string]int{}, prevVals: map[int][]prevVal{}, staleOK: map[int]string{}, readsAny: map[string]int{}, wroteUnserved: map[int]bool{}, lostByGCOnly: map[int]bool{}, registeredOnWrite: map[int]bool{}, passesWithGroupWrite: map[int]int{}}
	r.model = make([]*mkey, len(h.Cfg.Keys))
	for i := range r.model {
		r.model[i] = &mkey{}
	}
	r.inGrp = make([]bool, len(h.Cfg.Keys))
	for _, g := range h.Cfg.Groups {
		for _, k := range g {
			r.inGrp[k] = true
		}
	}
	return r
}

func (r *histRunner) sortedLabels() []string {
	out := make([]string, 0, len(r.labels))
	for l := range r.labels {
		out = append(out, l)
	}
	sort.Strings(out)
	return out
}

// residence classifies where the record at pos currently lives.
func (r *histRunner) residence(bkt *Bucket, pos Position) string {
	dc := &bkt.datas.chunks[pos.ChunkID]
	dc.Lock()
	inbuf := false
	for _, w := range dc.wbuf {
		if w.pos.Offset == pos.Offset {
			inbuf = true
			break
		}
	}
	dc.Unlock()
	old := pos.ChunkID < bkt.datas.newHead
	switch {
	case inbuf && !old:
		return "buffer"
	case inbuf && old:
		return "buffer-old"
	case old:
		return "file-old"
	}
	return "file-head"
}

func (r *histRunner) bucketOf(key []byte) (*Bucket, bool) {
	ki := newKI(key)
	ki.KeyHash = getKeyHash(key)
	ki.Prepare()
	b := r.store.buckets[ki.BucketID]
	return b, b.State == BUCKET_STAT_READY
}

func short(b []byte) string {
	if len(b) <= 24 {
		return fmt.Sprintf("%q", b)
	}
	return fmt.Sprintf("%q...(%d bytes, vhash %d)", b[:24], len(b), verifkit.Vhash(b))
}

// checkGet reads key k through HStore.Get and compares with the model.
func (r *histRunner) checkGet(k int, where string) error {
	key := r.h.Cfg.Keys[k]
	m := r.model[k]
	bkt, served := r.bucketOf(key)
	p, pos, err := r.store.Get(newKI(key), false)
	if r.staleOK[k] == "C13-tombstone-sibling" && m.State == stDeleted && err != nil {
		// the tombstone itself was dropped by a later GC pass while the collision table still names its position
		r.excluded["C13-tombstone-sibling"]++
		return nil
	}
	if r.staleOK[k] == "C13-tombstone-sibling" && m.State == stLive && (err != nil || p == nil || p.Ver < 0) {
		// the key lost its tree slot to a sibling's tombstone (and a later GC may have discarded its record)
		r.excluded["C13-tombstone-sibling"]++
		freePayload(p)
		return nil
	}
	if err != nil {
		return fmt.Errorf("%s: Get(%q) returned error %v; model: %s", where, key, err, m.describe())
	}
	defer freePayload(p)
	if !served {
		if p != nil {
			return fmt.Errorf("%s: Get(%q) hit in an unserved bucket", where, key)
		}
		return nil
	}
	if (r.staleOK[k] == "C05-sibling-hint-dumped-during-pass" || r.staleOK[k] == "C05-guess-after-sibling-first-write") && (p == nil || p.Ver < 0) && m.State == stLive && err == nil {
		// the records of a live colliding key were discarded by a merge pass that could not see its new sibling
		r.excluded[r.staleOK[k]]++
		freePayload(p)
		return nil
	}
	if r.staleOK[k] == "C13-gc-nomerge" && (p == nil || p.Ver < 0) && m.State == stLive {
		// the record of a live colliding key was discarded by a GC pass without merge (same root cause)
		r.excluded["C13-gc-nomerge"]++
		return nil
	}
	if r.staleOK[k] != "" && p != nil && p.Ver < 0 && m.State == stLive {
		// an older own tombstone surfaces (same root causes): only if this key was deleted before
		for _, pv := range r.prevVals[k] {
			if pv.val == nil {
				r.excluded[r.staleOK[k]]++
				return nil
			}
		}
	}
	if r.staleOK[k] != "" && p != nil && p.Ver > 0 {
		// C13-merge-stale: exactly an older acknowledged value of this very key is tolerated
		cur := m.State == stLive && bytes.Equal(p.Body, m.Val) && p.Flag == m.Flag
		if !cur {
			for _, pv := range r.prevVals[k] {
				if bytes.Equal(pv.val, p.Body) && pv.flag == p.Flag {
					r.excluded[r.staleOK[k]]++
					return nil
				}
			}
		}
	}
	switch m.State {
	case stAbsent:
		if p != nil && !(r.inGrp[k] && p.Ver < 0) {
			return fmt.Errorf("%s: Get(%q) = (ver %d, %s) but the key was never written", where, key, p.Ver, short(p.Body))
		}
	case stDeleted:
		if p == nil {
			if !m.has(0) && !r.inGrp[k] {
				// a tombstone is only dropped when the tree is rebuilt from hints
				return fmt.Errorf("%s: Get(%q) finds no tombstone although no index rebuild happened since the delete (model %s)", where, key, m.describe())
			}
			if !r.inGrp[k] {
				m.Vers = []int32{0}
			}
			return nil
		}
		if p.Ver > 0 {
			return fmt.Errorf("%s: Get(%q) = live (ver %d, %s) but the key was deleted (model %s)", where, key, p.Ver, short(p.Body), m.describe())
		}
		if !r.inGrp[k] {
			if !m.has(-p.Ver) {
				return fmt.Errorf("%s: Get(%q) tombstone has version %d, model %s", where, key, p.Ver, m.describe())
			}
			m.Vers = []int32{-p.Ver}
		}
	case stLive:
		if p == nil {
			return fmt.Errorf("%s: Get(%q) = miss, model: %s", where, key, m.describe())
		}
		if p.Ver < 0 {
			return fmt.Errorf("%s: Get(%q) = tombstone ver %d, model: %s", where, key, p.Ver, m.describe())
		}
		if !bytes.Equal(p.Body, m.Val) {
			return fmt.Errorf("%s: Get(%q) value = %s, model: %s", where, key, short(p.Body), m.describe())
		}
		if p.Flag != m.Flag {
			return fmt.Errorf("%s: Get(%q) flag = %#x, model: %s", where, key, p.Flag, m.describe())
		}
		if !r.inGrp[k] {
			if !m.has(p.Ver) {
				return fmt.Errorf("%s: Get(%q) version = %d, model: %s", where, key, p.Ver, m.describe())
			}
			m.Vers = []int32{p.Ver}
		}
		res := r.residence(bkt, pos)
		r.readsAny[res]++
		if m.Writes > 1 {
			r.reads[res]++
		}
	}
	return nil
}

// checkMeta reads the tree meta (version, value hash) and compares with the model.
func (r *histRunner) checkMeta(k int, where string) error {
	key := r.h.Cfg.Keys[k]
	m := r.model[k]
	_, served := r.bucketOf(key)
	if !served {
		return nil
	}
	p, _, err := r.store.Get(newKI(key), true)
	if err != nil {
		return fmt.Errorf("%s: meta Get(%q) error %v", where, key, err)
	}
	if r.inGrp[k] {
		return nil // the tree slot is shared by the colliding keys
	}
	switch m.State {
	case stAbsent:
		if p != nil {
			return fmt.Errorf("%s: meta of never written key %q = ver %d", where, key, p.Ver)
		}
	case stDeleted:
		if p == nil {
			if !m.has(0) {
				return fmt.Errorf("%s: meta of deleted key %q missing without an index rebuild", where, key)
			}
		} else if p.Ver > 0 {
			return fmt.Errorf("%s: meta of deleted key %q is live ver %d", where, key, p.Ver)
		} else if !m.has(-p.Ver) {
			return fmt.Errorf("%s: meta of deleted key %q has version %d, model %s", where, key, p.Ver, m.describe())
		}
	case stLive:
		if p == nil || p.Ver < 0 {
			return fmt.Errorf("%s: meta of live key %q: %+v, model: %s", where, key, p, m.describe())
		}
		if !m.has(p.Ver) {
			return fmt.Errorf("%s: meta version of %q = %d, model: %s", where, key, p.Ver, m.describe())
		}
		if want := verifkit.Vhash(m.Val); p.ValueHash != want {
			return fmt.Errorf("%s: meta value hash of %q = %d, reference hash of the uncompressed value = %d", where, key, p.ValueHash, want)
		}
	}
	return nil
}

func (m *mkey) describe() string {
	switch m.State {
	case stAbsent:
		return "absent"
	case stDeleted:
		return fmt.Sprintf("deleted(admissible versions -%v)", m.Vers)
	}
	return fmt.Sprintf("live(admissible versions %v, flag %#x, value %s)", m.Vers, m.Flag, short(m.Val))
}

func (r *histRunner) sweep(where string) error {
	for k := range r.model {
		if err := r.checkGet(k, where); err != nil {
			return err
		}
		if err := r.checkMeta(k, where); err != nil {
			return err
		}
	}
	return nil
}

// ---------------------------------------------------------------------------
// single operations

func (r *histRunner) doSet(op *Op) error {
	key := r.h.Cfg.Keys[op.K]
	m := r.model[op.K]
	op = r.resolveSet(op, m)
	val := op.V.Expand()
	if int64(len(val)) > r.h.Cfg.BodyMax {
		val = val[:r.h.Cfg.BodyMax]
	}
	bkt0, served := r.bucketOf(key)
	groupKnown := false
	if served && r.inGrp[op.K] {
		// hint.go set(): a key written while the collision table already knows its hash group is registered there
		_, groupKnown = bkt0.hints.collisions.get(getKeyHash(key), string(key))
	}
	r.ts++
	err := r.store.Set(newKI(key), newPayload(val, op.Flag, op.Rev, r.stamp()))
	if err != nil {
		return fmt.Errorf("Set(%q, rev %d) returned error %v", key, op.Rev, err)
	}
	if !served {
		r.label("set_unserved")
		r.wroteUnserved[op.K] = true
		return nil
	}
	if r.inGrp[op.K] {
		// colliding keys: versions are not modelled (the tree slot is shared); every set is a write
		sibling := r.h.Cfg.CheckVHash && r.siblingSameVhash(op.K, val)
		if sibling && verifkit.Known("C13-vhash-sibling") {
			r.excluded["C13-vhash-sibling"]++
		} else {
			sibling = false
		}
		if r.h.Cfg.CheckVHash && (sibling || (m.State == stLive && verifkit.Vhash(val) == verifkit.Vhash(m.Val))) {
			// "not really set if vhash is the same": whether the store sees the key's own value hash depends on which
			// sibling owns the shared tree slot, so both outcomes (no-op, write) are admissible here
			p, _, err := r.store.Get(newKI(key), false)
			if err != nil && r.staleOK[op.K] == "C13-tombstone-sibling" {
				// the key's record was discarded (known finding); the dropped same-vhash set did not bring it back
				r.excluded["C13-tombstone-sibling"]++
				r.label("vhash_noop_collide")
				return nil
			}
			if err != nil {
				return fmt.Errorf("Get(%q) after same-vhash set: %v", key, err)
			}
			defer freePayload(p)
			if p != nil && p.Ver > 0 && bytes.Equal(p.Body, val) && p.Flag == op.Flag {
				*m = mkey{State: stLive, Val: val, Flag: op.Flag, Spec: op.V, Writes: m.Writes + 1}
				r.wroteNow = true
			}
			r.label("vhash_noop_collide")
			return nil
		}
		if m.State != stAbsent {
			r.label("overwrite")
		}
		*m = mkey{State: stLive, Val: val, Flag: op.Flag, Spec: op.V, Writes: m.Writes + 1}
		if groupKnown {
			r.registeredOnWrite[op.K] = true
		}
		r.collideWrites++
		r.wroteNow = true
		return nil
	}
	old := m.oldVers()
	if r.h.Cfg.CheckVHash && m.State == stLive && verifkit.Vhash(val) == verifkit.Vhash(m.Val) {
		// documented: "not really set if vhash is the same"; an explicit revision only updates the version kept in
		// the tree, and (C01) an explicit revision is accepted only if larger in absolute value.
		r.label("vhash_noop")
		if op.Rev != 0 {
			m.Vers = mapVers(old, func(v int32) int32 {
				if op.Rev > v {
					return op.Rev
				}
				return v
			})
			if !(len(m.Vers) == 1 && m.Vers[0] == m.DataVer) {
				r.label("tree_only_version")
			}
		}
		return nil
	}
	var nv []int32
	if op.Rev == 0 {
		nv = mapVers(old, func(v int32) int32 { return v + 1 })
	} else {
		acc, rej := 0, 0
		for _, v := range old {
			if op.Rev > v {
				acc++
			} else {
				rej++
			}
		}
		switch {
		case acc == 0:
			r.label("stale_rev_ignored")
			return nil
		case rej > 0:
			// acceptance legitimately depends on which admissible version the tree holds: look
			r.label("rev_ambiguous")
			p, _, err := r.store.Get(newKI(key), true)
			if err != nil {
				return fmt.Errorf("meta Get(%q): %v", key, err)
			}
			if p == nil || p.Ver != op.Rev {
				// not accepted: keep only the versions that explain it
				var keep []int32
				for _, v := range old {
					if op.Rev <= v {
						keep = append(keep, v)
					}
				}
				m.Vers = keep
				return nil
			}
		}
		nv = []int32{op.Rev}
		r.label("explicit_rev_accepted")
	}
	if m.State != stAbsent {
		r.label("overwrite")
	}
	*m = mkey{State: stLive, Val: val, Flag: op.Flag, Vers: nv, Spec: op.V, Writes: m.Writes + 1}
	if len(nv) == 1 {
		m.DataVer = nv[0]
	}
	return nil
}

// siblingDeleted reports whether a key colliding with key k is currently deleted (its tombstone may own the shared slot).
func (r *histRunner) siblingDeleted(k int) bool {
	for _, g := range r.h.Cfg.Groups {
		in := false
		for _, x := range g {
			if x == k {
				in = true
			}
		}
		if !in {
			continue
		}
		for _, x := range g {
			if x != k && r.model[x].State == stDeleted {
				return true
			}
		}
	}
	return false
}

// siblingSameVhash reports whether a live key colliding with key k holds a value with the same 16-bit value hash.
func (r *histRunner) siblingSameVhash(k int, val []byte) bool {
	for _, g := range r.h.Cfg.Groups {
		in := false
		for _, x := range g {
			if x == k {
				in = true
			}
		}
		if !in {
			continue
		}
		for _, x := range g {
			if x != k && r.model[x].State == stLive && verifkit.Vhash(r.model[x].Val) == verifkit.Vhash(val) {
				return true
			}
		}
	}
	return false
}

// resolveSet turns the symbolic parts of a set (same value, relative revision) into concrete ones.
func (r *histRunner) resolveSet(op *Op, m *mkey) *Op {
	o := *op
	if o.Same != 0 && m.State == stLive && m.Spec.Class != "" {
		switch o.Same {
		case 1:
			o.V, o.Flag = m.Spec, m.Flag
		case 2:
			o.V = m.Spec
		case 3:
			if m.Spec.Class == "midpair" && m.Spec.Size > 1024 {
				o.V = verifkit.ValSpec{Class: "midpair", Size: m.Spec.Size, Salt: m.Spec.Salt + 1}
				o.Flag = m.Flag
			}
		}
	}
	if o.RevRel {
		cur := int32(0)
		if m.State != stAbsent && len(m.Vers) > 0 {
			cur = m.Vers[0]
		}
		o.Rev = cur + o.Rev
		if o.Rev < 1 {
			o.Rev = 0
		}
		o.RevRel = false
	}
	o.Same = 0
	r.lastResolved = o
	return &o
}

func (r *histRunner) doDelete(op *Op) error {
	key := r.h.Cfg.Keys[op.K]
	m := r.model[op.K]
	_, served := r.bucketOf(key)
	r.ts++
	err := r.store.Set(newKI(key), newDeletePayload(r.stamp()))
	if !served {
		if err != nil {
			return fmt.Errorf("delete of %q in an unserved bucket returned %v", key, err)
		}
		return nil
	}
	if r.inGrp[op.K] {
		// the shared tree slot may belong to a sibling: the status is not asserted for colliding keys,
		// but an acknowledged delete must delete
		if err == nil {
			r.label("delete")
			r.collideWrites++
			r.wroteNow = true
			*m = mkey{State: stDeleted, Writes: m.Writes + 1}
		} else if err.Error() != "NOT_FOUND" {
			return fmt.Errorf("delete of colliding key %q returned %v", key, err)
		} else if m.State == stLive {
			r.label("delete_collide_notfound")
			if verifkit.Known("C13-vhash-sibling") && r.siblingDeleted(op.K) {
				// same root cause as the dropped same-vhash set: checkAndSet judges the request by the meta of the shared
				// tree slot without comparing keys; the slot shows a sibling's tombstone
				r.excluded["C13-vhash-sibling"]++
				return nil
			}
			if r.staleOK[op.K] == "" {
				// a live key whose delete is answered NOT_FOUND: the shared slot (or a stale collision table entry)
				// shows a tombstone; only tolerated where a listed finding explains the stale view
				return fmt.Errorf("delete of live colliding key %q returned NOT_FOUND", key)
			}
			r.excluded[r.staleOK[op.K]]++
		}
		return nil
	}
	if m.State != stLive {
		if err == nil || err.Error() != "NOT_FOUND" {
			return fmt.Errorf("delete of %s key %q returned %v, want NOT_FOUND", map[int]string{stAbsent: "a never written", stDeleted: "an already deleted"}[m.State], key, err)
		}
		r.label("delete_missing")
		return nil
	}
	if err != nil {
		return fmt.Errorf("delete of live key %q (model %s) returned %v", key, m.describe(), err)
	}
	r.label("delete")
	nv := mapVers(m.Vers, func(v int32) int32 { return v + 1 })
	*m = mkey{State: stDeleted, Vers: nv, Writes: m.Writes + 1}
	if len(nv) == 1 {
		m.DataVer = nv[0]
	}
	return nil
}

func (r *histRunner) doIncr(op *Op) error {
	key := r.h.Cfg.Keys[op.K]
	m := r.model[op.K]
	_, served := r.bucketOf(key)
	got := r.store.Incr(newKI(key), op.Delta)
	if !served {
		if got != 0 {
			return fmt.Errorf("incr of %q in an unserved bucket returned %d", key, got)
		}
		return nil
	}
	if r.inGrp[op.K] {
		// colliding keys: incr reads through the shared slot; adopt what a read returns (value-level checks follow)
		p, _, _ := r.store.Get(newKI(key), false)
		if p != nil && p.Ver > 0 {
			*m = mkey{State: stLive, Val: append([]byte(nil), p.Body...), Flag: p.Flag, Writes: m.Writes + 1}
			r.wroteNow = true
		}
		freePayload(p)
		return nil
	}
	if m.State == stLive {
		n, err := strconv.Atoi(string(m.Val))
		if m.Flag != FLAG_INCR || len(m.Val) > 22 || err != nil {
			if got != 0 {
				return fmt.Errorf("incr(%q,%d) on a non-counter (%s) returned %d, want 0", key, op.Delta, m.describe(), got)
			}
			r.label("incr_non_counter")
			return nil
		}
		want := n + op.Delta
		if got != want {
			return fmt.Errorf("incr(%q,%d) on counter %d returned %d, want %d", key, op.Delta, n, got, want)
		}
		r.label("incr_live")
		nv := mapVers(m.Vers, func(v int32) int32 { return v + 1 })
		*m = mkey{State: stLive, Val: []byte(strconv.Itoa(want)), Flag: FLAG_INCR, Vers: nv, Writes: m.Writes + 1}
		if len(nv) == 1 {
			m.DataVer = nv[0]
		}
		return nil
	}
	// absent or deleted: creates the counter; the version arithmetic is undocumented: 1 or |old|+1
	if got != op.Delta {
		return fmt.Errorf("incr(%q,%d) on a missing key returned %d", key, op.Delta, got)
	}
	r.label("incr_create")
	nv := []int32{1}
	for _, v := range m.oldVers() {
		dup := false
		for _, x := range nv {
			if x == v+1 {
				dup = true
			}
		}
		if !dup {
			nv = append(nv, v+1)
		}
	}
	*m = mkey{State: stLive, Val: []byte(strconv.Itoa(op.Delta)), Flag: FLAG_INCR, Vers: nv, Writes: m.Writes + 1}
	return nil
}

func (r *histRunner) doFlush(op *Op) error {
	r.store.flushdatas(op.Force)
	return nil
}

func (r *histRunner) doDumpHints() error {
	for _, b := range r.store.buckets {
		if b.State == BUCKET_STAT_READY {
			b.hints.dumpAndMerge(false)
		}
	}
	return nil
}

// doMerge runs one round of the hint dumper body; the merge it would start in a goroutine (same trigger
// condition as hintMgr.dumpAndMerge, with the production merge interval of 1) is run synchronously instead.
func (r *histRunner) doMerge() error {
	for _, b := range r.store.buckets {
		if b.State == BUCKET_STAT_READY {
			h := b.hints
			h.dumpAndMerge(false) // Conf.MergeInterval is huge: never spawns the goroutine itself
			if h.state&HintStateMerge == 0 && h.maxChunkID-h.collisions.Chunk > 1 {
				if verifkit.Known("C13-merge-stale") {
					// known finding: the merge only sees dumped hint files; a colliding key whose newest record is still
					// only in a hint buffer gets an older position in the collision table
					for k, in := range r.inGrp {
						if !in || r.model[k].State == stAbsent {
							continue
						}
						key := r.h.Cfg.Keys[k]
						if kb, _ := r.bucketOf(key); kb != b {
							continue
						}
						if it, _, _ := h.getItem(getKeyHash(key), string(key), true); it != nil {
							r.staleOK[k] = "C13-merge-stale"
						}
					}
				}
				h.Merge(false)
				r.label("hint_merge")
			}
		}
	}
	return nil
}

// doRotate forces a data-file rotation in the bucket of key K by writing that key with a value
// that does not fit into the rest of the head file.
func (r *histRunner) doRotate(op *Op) error {
	key := r.h.Cfg.Keys[op.K]
	bkt, served := r.bucketOf(key)
	if !served {
		return nil
	}
	head := bkt.datas.newHead
	room := r.h.Cfg.DataFileMax - int64(bkt.datas.chunks[head].writingHead)
	if room <= 0 {
		room = 0
	}
	need := room + 1 - int64(verifkit.RecHeader) - int64(len(key))
	if need < 0 {
		need = 0
	}
	if need > r.h.Cfg.BodyMax {
		return nil
	}
	o := Op{Kind: "set", K: op.K, V: verifkit.ValSpec{Class: "random", Size: int(need), Salt: op.V.Salt}, Flag: 0}
	before := hooks.count("ds.rotate")
	if err := r.doSet(&o); err != nil {
		return err
	}
	if hooks.count("ds.rotate") > before {
		r.label("rotation")
	}
	return nil
}

// doReopen = graceful shutdown, removal of a drawn subset of index files, start.
func (r *histRunner) doReopen(op *Op) error {
	raced := false
	if op.Race && hooks.numParked() > 0 {
		// graceful shutdown while the flush goroutine spawned at rotation has not run yet
		closeStore(r.store)
		img := r.home + "-img"
		os.RemoveAll(img)
		if err := verifkit.CopyDir(r.home, img); err != nil {
			return infraf("copy image: %v", err)
		}
		if err := hooks.releaseRotFlush(); err != nil {
			return err
		}
		discardStore(r.store)
		r.store = nil
		os.RemoveAll(r.home)
		if err := os.Rename(img, r.home); err != nil {
			return infraf("rename image: %v", err)
		}
		raced = true
		r.label("shutdown_before_rotation_flush")
	} else {
		if err := hooks.releaseRotFlush(); err != nil {
			return err
		}
		closeStore(r.store)
		discardStore(r.store)
		r.store = nil
	}
	_ = raced
	mask := op.Mask
	if op.Jump > 0 && r.h.Cfg.NumBucket == 1 && len(r.h.Cfg.Groups) == 0 { // collision.yaml names positions: it is not an index file that may go
		paths, _ := filepath.Glob(filepath.Join(r.home, "*.data"))
		sort.Strings(paths)
		if n := len(paths); n > 0 {
			var id int
			fmt.Sscanf(filepath.Base(paths[n-1]), "%03d.data", &id)
			if to := id + op.Jump; to <= 985 {
				if err := os.Rename(paths[n-1], filepath.Join(r.home, fmt.Sprintf("%03d.data", to))); err != nil {
					return infraf("rename data file: %v", err)
				}
				mask = "all"
				r.label("file_id_jump")
				if to >= 256 {
					r.label("file_id>=256")
				}
			}
		}
	}
	files := indexFiles(r.home)
	var del []string
	switch mask {
	case "", "none":
	case "all":
		del = files
	case "hash":
		for _, f := range files {
			if filepath.Ext(f) == ".hash" {
				del = append(del, f)
			}
		}
	case "hints":
		for _, f := range files {
			if filepath.Ext(f) != ".hash" {
				del = append(del, f)
			}
		}
	case "last":
		if len(files) > 0 {
			// the last hint split (highest name among *.idx.s)
			for i := len(files) - 1; i >= 0; i-- {
				if filepath.Ext(files[i]) == ".s" {
					del = append(del, files[i])
					break
				}
			}
		}
	case "subset":
		for i, f := range files {
			if i < 64 && op.MaskSel&(1<<uint(i)) != 0 {
				del = append(del, f)
			}
		}
	}
	for _, f := range del {
		os.Remove(filepath.Join(r.home, f))
	}
	if len(del) > 0 {
		r.label("index_deleted")
		r.deletedFiles += len(del)
	}
	hashKept := false
	for _, f := range files {
		if filepath.Ext(f) == ".hash" {
			kept := true
			for _, d := range del {
				if d == f {
					kept = false
				}
			}
			if kept {
				hashKept = true
			}
		}
	}
	if hashKept {
		r.label("tree_dump_kept")
	} else {
		r.label("tree_rebuilt")
	}
	s, err := openStore(&r.h.Cfg)
	if err != nil {
		if isInfra(err) {
			return err
		}
		return fmt.Errorf("reopen failed: %v", err)
	}
	r.store = s
	r.reopens++
	r.label("reopen")
	// model adjustments documented in C02: tombstones may be dropped by a rebuild; tree-only version changes may be lost
	if !hashKept && verifkit.Known("C13-tombstone-sibling") {
		// known finding: the tree item does not carry the key, so the tombstone of one colliding key, replayed from the
		// hints when the tree is rebuilt, removes the slot shared with its live siblings
		for _, g := range r.h.Cfg.Groups {
			hasTomb := false
			for _, k := range g {
				if r.model[k].State == stDeleted {
					hasTomb = true
				}
			}
			if hasTomb {
				for _, k := range g {
					if r.model[k].State == stAbsent {
						continue
					}
					// a live key that the collision table names keeps being found through the table, whatever happened to
					// the shared tree slot ("unless it is in the collision table"); only a later GC pass, whose not-in-tree
					// branch ignores the table, can discard its record: until then the finding does not cover it
					if r.model[k].State == stLive && (r.inCollisionTable(k) || r.registeredOnWrite[k]) {
						r.lostByGCOnly[k] = true
						continue
					}
					r.staleOK[k] = "C13-tombstone-sibling"
				}
			}
		}
	}
	for _, m := range r.model {
		switch m.State {
		case stDeleted:
			m.addVer(0)
		case stLive:
			if m.DataVer != 0 {
				m.addVer(m.DataVer)
			}
		}
	}
	return nil
}

// inCollisionTable reports whether the collision table of the key's bucket has an entry for key k.
func (r *histRunner) inCollisionTable(k int) bool {
	key := r.h.Cfg.Keys[k]
	bkt, served := r.bucketOf(key)
	if !served {
		return false
	}
	it, _ := bkt.hints.collisions.get(getKeyHash(key), string(key))
	return it != nil
}

// afterAnyGCPass: keys that only a GC pass could still lose to the tombstone-sibling finding are covered by it from now on.
func (r *histRunner) afterAnyGCPass() {
	for k := range r.lostByGCOnly {
		r.staleOK[k] = "C13-tombstone-sibling" // (as at a restart: this finding's outcomes include those of the other markers)
		delete(r.lostByGCOnly, k)
	}
}

// scanBucket scans all data files of a bucket with the independent scanner.
func (r *histRunner) scanBucket(bkt *Bucket) map[string][]verifkit.ScanRec {
	out := map[string][]verifkit.ScanRec{}
	paths, _ := filepath.Glob(filepath.Join(bkt.Home, "*.data"))
	for _, p := range paths {
		recs, _, _ := verifkit.ScanFile(p, 250, r.h.Cfg.BodyMax)
		out[filepath.Base(p)] = recs
	}
	return out
}

// cloneModel returns a deep copy of the model.
func (r *histRunner) cloneModel() []*mkey {
	out := make([]*mkey, len(r.model))
	for i, m := range r.model {
		c := *m
		c.Vers = append([]int32(nil), m.Vers...)
		out[i] = &c
	}
	return out
}

// gcBefore is the state of a bucket right before a GC pass.
type gcBefore struct {
	recs    map[string][]verifkit.ScanRec
	raw     map[string][]byte
	treeHad map[int]bool // deleted keys: does the tree hold their tombstone
	head    int
}

func (r *histRunner) snapshotForGC(bkt *Bucket) *gcBefore {
	b := &gcBefore{recs: r.scanBucket(bkt), raw: map[string][]byte{}, treeHad: map[int]bool{}, head: bkt.datas.newHead}
	paths, _ := filepath.Glob(filepath.Join(bkt.Home, "*.data"))
	for _, p := range paths {
		raw, _ := os.ReadFile(p)
		b.raw[filepath.Base(p)] = raw
	}
	for k, m := range r.model {
		if m.State == stDeleted {
			key := r.h.Cfg.Keys[k]
			if kb, _ := r.bucketOf(key); kb == bkt {
				ki := newKI(key)
				ki.KeyHash = getKeyHash(key)
				ki.Prepare()
				_, _, found := bkt.htree.get(ki)
				b.treeHad[k] = found
			}
		}
	}
	return b
}

// doGC runs a GC pass (synchronously, or through the public API waiting for its end).
func (r *histRunner) doGC(op *Op) error {
	// NoFlush: the pass starts while rotated files may still wait for their (parked) flush goroutine and the head holds
	// unflushed records - GC itself must bring what it reads to disk first
	if op.NoFlush && hooks.numParked() > 0 && r.opts.afterGC == nil && r.opts.beforeGC == nil {
		r.label("gc_with_pending_rotation_flush")
	} else if err := hooks.releaseRotFlush(); err != nil {
		return err
	}
	served := []int{}
	for i, b := range r.store.buckets {
		if b.State == BUCKET_STAT_READY {
			served = append(served, i)
		}
	}
	if len(served) == 0 {
		return nil
	}
	bid := served[op.Bucket%len(served)]
	bkt := r.store.buckets[bid]
	if !(op.NoFlush && r.opts.afterGC == nil && r.opts.beforeGC == nil) {
		r.store.flushdatas(true) // the scanner-based oracles (C17/C18, C07) read the files themselves: everything on disk first
	}
	begin, end, err := bkt.gcCheckRange(op.Begin, op.End, -1)
	if err != nil {
		r.label("gc_range_rejected")
		return nil
	}
	if !op.Merge && verifkit.Known("C13-gc-nomerge") {
		// known finding: without the merge step GC has no reliable way to tell colliding keys apart
		for _, g := range r.h.Cfg.Groups {
			n := 0
			for _, k := range g {
				if kb, _ := r.bucketOf(r.h.Cfg.Keys[k]); kb == bkt && r.model[k].State != stAbsent {
					n++
				}
			}
			if n >= 2 {
				for _, k := range g {
					if r.staleOK[k] == "" {
						r.staleOK[k] = "C13-gc-nomerge"
					}
				}
			}
		}
	}
	var before *gcBefore
	if r.opts.afterGC != nil {
		before = r.snapshotForGC(bkt)
	}
	if r.opts.beforeGC != nil {
		r.opts.beforeGC(r)
	}
	if op.ViaAPI && !(op.NoFlush && hooks.numParked() > 0) { // (a pass on its own goroutine would be parked as "the rotation flush")
		exits := hooks.count("gc.pass.exit")
		b2, e2, err := r.store.GC(bid, op.Begin, op.End, -1, op.Merge, false)
		if err != nil {
			return fmt.Errorf("HStore.GC(%d,%d,%d) rejected a range that gcCheckRange accepted: %v", bid, op.Begin, op.End, err)
		}
		if b2 != begin || e2 != end {
			return fmt.Errorf("HStore.GC resolved [%d,%d], gcCheckRange [%d,%d]", b2, e2, begin, end)
		}
		if err := hooks.waitFor("gc.pass.exit", func() bool { return hooks.counts["gc.pass.exit"] > exits }); err != nil {
			return err
		}
		r.label("gc_via_api")
	} else {
		r.store.gcMgr.gc(bkt, begin, end, op.Merge)
	}
	r.gcPasses++
	r.afterAnyGCPass()
	r.label("gc")
	if op.Merge {
		r.label("gc_merge")
	}
	n := len(bkt.GCHistory)
	if n > 0 {
		st := &bkt.GCHistory[n-1]
		if st.Err != nil {
			return fmt.Errorf("GC pass [%d,%d] of bucket %d ended with error %v", begin, end, bid, st.Err)
		}
		r.gcReleased += st.NumReleased
		r.gcKept += st.NumBefore - st.NumReleased
		if st.NumReleased > 0 {
			r.label("gc_released")
		}
		if st.NumBefore-st.NumReleased > 0 {
			r.label("gc_kept")
		}
		if begin == 0 {
			r.label("gc_from_0")
		}
	}
	if r.gcPasses > 1 {
		r.label("gc_twice")
	}
	if r.opts.afterGC != nil {
		if err := r.opts.afterGC(r, bid, begin, end, op.Merge, before); err != nil {
			return err
		}
	}
	return nil
}

func (r *histRunner) step(i int, op *Op) error {
	switch op.Kind {
	case "set":
		return r.doSet(op)
	case "delete":
		return r.doDelete(op)
	case "incr":
		return r.doIncr(op)
	case "get":
		if err := r.checkGet(op.K, "get"); err != nil {
			return err
		}
		return r.checkMeta(op.K, "meta")
	case "flush":
		return r.doFlush(op)
	case "dumphints":
		return r.doDumpHints()
	case "merge":
		return r.doMerge()
	case "rotate":
		return r.doRotate(op)
	case "release":
		return hooks.releaseRotFlush()
	case "reopen":
		return r.doReopen(op)
	case "crash":
		return r.doCrash(op)
	case "gc":
		if err := r.doGC(op); err != nil {
			return err
		}
		if op.Mask != "" {
			// restart right after the pass, with rebuilt indexes
			if err := r.sweep("sweep after gc, before the restart"); err != nil {
				return err
			}
			return r.doReopen(&Op{Kind: "reopen", Mask: op.Mask})
		}
		return nil
	case "gcpark":
		return r.doGCPark(op)
	case "gcreq":
		return r.doGCRequest(op)
	case "freshen":
		r.fresh = true
		return nil
	}
	return infraf("unknown op %q", op.Kind)
}

// run executes the history against the real store and the model in lock-step.
func (r *histRunner) run() (err error) {
	completed := false // false while unwinding a panic: no graceful shutdown then
	r.home = newHome()
	defer func() {
		if !r.opts.keepStore {
			os.RemoveAll(r.home)
		}
	}()
	applyCfg(&r.h.Cfg, r.home)
	hooks.reset(r.h.Cfg.ParkRotFlush)
	if r.opts.hookExtra != nil {
		f := r.opts.hookExtra(r)
		hooks.mu.Lock()
		hooks.extra = f
		hooks.mu.Unlock()
	}
	theHub.takeErrors()
	r.store, err = openStore(&r.h.Cfg)
	if err != nil {
		if isInfra(err) {
			return err
		}
		return fmt.Errorf("initial open failed: %v", err)
	}
	defer func() {
		if e := hooks.releaseRotFlush(); e != nil && err == nil {
			err = e
		}
		if r.store != nil && !r.opts.keepStore {
			if !r.opts.noCloseAtEnd && err == nil && completed {
				closeStore(r.store)
			}
			discardStore(r.store)
			r.store = nil
		}
	}()
	for i := range r.h.Ops {
		op := &r.h.Ops[i]
		r.curOp = i
		r.wroteNow = false
		if traceHooks {
			fmt.Fprintf(os.Stderr, "OP %d %s\n", i, opString(op, &r.h.Cfg))
		}
		if e := r.step(i, op); e != nil {
			if isInfra(e) {
				return e
			}
			return fmt.Errorf("op %d %s: %v", i, opString(op, &r.h.Cfg), e)
		}
		// after every mutating op: the key touched reads back as the model says
		switch op.Kind {
		case "set", "delete", "incr", "rotate":
			if r.inGrp[op.K] && r.wroteNow {
				delete(r.staleOK, op.K)
				delete(r.lostByGCOnly, op.K)
				if m := r.model[op.K]; m.State == stLive {
					r.prevVals[op.K] = append(r.prevVals[op.K], prevVal{m.Val, m.Flag})
				} else if m.State == stDeleted {
					// a relocated tombstone record read through a slot with a positive version looks like an empty live value
					r.prevVals[op.K] = append(r.prevVals[op.K], prevVal{nil, 0})
				}
			}
			if e := r.checkGet(op.K, "read-after-write"); e != nil {
				return fmt.Errorf("op %d %s: %v", i, opString(op, &r.h.Cfg), e)
			}
		case "reopen", "crash", "gc", "merge", "gcpark", "gcreq":
			if e := r.sweep("sweep after " + op.Kind); e != nil {
				return fmt.Errorf("op %d %s: %v", i, opString(op, &r.h.Cfg), e)
			}
		}
		if r.opts.onStep != nil {
			if e := r.opts.onStep(r, i, op); e != nil {
				if isInfra(e) {
					return e
				}
				return fmt.Errorf("op %d %s: %v", i, opString(op, &r.h.Cfg), e)
			}
		}
	}
	if !r.opts.noFinalSweep {
		if e := r.sweep("final sweep"); e != nil {
			return e
		}
	}
	completed = true
	return nil
}

func opString(op *Op, c *Cfg) string {
	switch op.Kind {
	case "set":
		return fmt.Sprintf("set(%q, %s/%d/%d, flag %#x, rev %d, revrel %v, same %d)", c.Keys[op.K], op.V.Class, op.V.Size, op.V.Salt, op.Flag, op.Rev, op.RevRel, op.Same)
	case "delete", "get", "rotate":
		return fmt.Sprintf("%s(%q)", op.Kind, c.Keys[op.K])
	case "incr":
		return fmt.Sprintf("incr(%q, %d)", c.Keys[op.K], op.Delta)
	case "flush":
		return fmt.Sprintf("flush(force=%v)", op.Force)
	case "reopen":
		return fmt.Sprintf("reopen(mask=%s/%x)", op.Mask, op.MaskSel)
	case "gc":
		return fmt.Sprintf("gc(bucket#%d, %d, %d, merge=%v, api=%v, then reopen %q)", op.Bucket, op.Begin, op.End, op.Merge, op.ViaAPI, op.Mask)
	}
	return op.Kind
}

// storedValue returns the uncompressed value of a scanned record (pure-Go decompressor).
func storedValue(rec *verifkit.ScanRec) ([]byte, error) {
	if rec.Flag&FLAG_COMPRESS == 0 {
		return rec.Body, nil
	}
	return quicklz.DecompressSafe(rec.Body)
}
