package store

import "testing"

// C13: keys with equal 64-bit hashes never alias or lose each other.
var c13Collide = &histCheck{
	property: "C13",
	name:     "TestVerif_C13_Collisions",
	profile: func() *genProfile {
		p := &genProfile{minOps: 4, maxOps: 60, reopen: true, gc: true, tinyFiles: true, groups: true, maxKeys: 8, buckets: []int{1, 1, 1, 16}}
		if thorough() {
			p.maxOps = 120
		}
		return p
	},
	opts: func() runOpts { return runOpts{collisions: true} },
	nontrivial: func(r *histRunner) bool {
		return r.collideWrites >= 2 && (r.reopens > 0 || r.gcPasses > 0)
	},
}

func TestVerif_C13_Collisions(t *testing.T) { c13Collide.check(t) }

func init() { c13Collide.register() }
