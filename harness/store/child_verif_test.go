package store

// childMain is the entry point of helper child processes (crash-recovery checks);
// filled in by the C06/C07 harness.
func childMain() int {
	return childDispatch()
}
