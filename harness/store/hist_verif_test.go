package store

import (
	"encoding/json"
	"testing"

	"github.com/douban/gobeansdb/verifkit"
	"pgregory.net/rapid"
)

// histCheck describes one history-based check function.
type histCheck struct {
	property   string
	name       string
	profile    func() *genProfile
	opts       func() runOpts
	nontrivial func(r *histRunner) bool
	extraLabel func(r *histRunner)
	postGen    func(t *rapid.T, h *History) // optional adjustments of the generated case
}

func (hc *histCheck) runCase(h *History) (r *histRunner, err error) {
	o := hc.opts()
	o.property = hc.property
	r = newRunner(h, o)
	markDriver()
	defer func() {
		if e := recover(); e != nil {
			err = panicToError(e)
		}
	}()
	err = r.run()
	return r, err
}

func (hc *histCheck) register() {
	replayers[hc.name] = func(raw json.RawMessage) error {
		h := &History{}
		if err := json.Unmarshal(raw, h); err != nil {
			return err
		}
		_, err := hc.runCase(h)
		return err
	}
}

func canon(v interface{}) []byte {
	b, _ := json.Marshal(v)
	return b
}

func (hc *histCheck) check(t *testing.T) {
	st := verifkit.StatsFor(hc.name)
	defer verifkit.ClearCurrent()
	rapid.Check(t, func(t *rapid.T) {
		p := hc.profile()
		h := &History{}
		h.Cfg = genCfg(t, p)
		h.Ops = genOps(t, &h.Cfg, p)
		if hc.postGen != nil {
			hc.postGen(t, h)
		}
		verifkit.SetCurrent(hc.property, hc.name, h)
		r, err := hc.runCase(h)
		if err != nil && isInfra(err) {
			t.Fatalf("%v", err) // no failure file: the driver reports this as inconclusive
		}
		if hc.extraLabel != nil {
			hc.extraLabel(r)
		}
		for res, n := range r.reads {
			if n > 0 {
				r.label("read:" + res)
			}
		}
		for id, n := range r.excluded {
			for i := 0; i < n; i++ {
				st.Exclude(id)
			}
		}
		labels := r.sortedLabels()
		labels = append(labels, "buckets="+itoa(h.Cfg.NumBucket))
		st.Case(labels, err == nil && hc.nontrivial(r), canon(h), h)
		if err != nil {
			verifkit.Fail(hc.property, hc.name, h, err.Error())
			t.Fatalf("%v", err)
		}
	})
}

func itoa(n int) string {
	b, _ := json.Marshal(n)
	return string(b)
}
