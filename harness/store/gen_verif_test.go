package store

// rapid generators for configurations, keys, values and histories.

import (
	"fmt"

	"github.com/douban/gobeansdb/verifkit"
	"pgregory.net/rapid"
)

type genProfile struct {
	maxOps     int
	minOps     int
	reopen     bool // allow reopen ops
	gc         bool // allow gc ops
	groups     bool // force hash-collision groups
	tinyFiles  bool // data files of a few blocks (many files)
	buckets    []int
	maxHeight  int
	bigValues  bool // allow values up to MBs (thorough)
	noExplicit bool // no explicit revisions
	park       bool // allow parking of the post-rotation flush
	checkVHash *bool
	cfgHook    func(t *rapid.T, c *Cfg) // last word on the configuration (C15: served subsets, keys per bucket)
	kinds      []string                 // overrides the op mix
	postCfg    func(t *rapid.T, c *Cfg) // small adjustments after the generic configuration was drawn
	compress   bool                     // values and sizes focused on the server-side compression decision (C10)
	maxKeys    int
	crash      bool // allow kill-and-restart ops (the history continues on the recovered store)
}

var asciiKeyChars = []byte("abcdefghijklmnopqrstuvwxyzABCDEFGHIJKLMNOPQRSTUVWXYZ0123456789_-./:;,=+%#&*()[]{}<>|~!$^'\"\\`?@")

// genKey draws one valid key (1..250 bytes, no control/space, not starting with '@' or '?').
func genKey(t *rapid.T, label string) []byte {
	shape := rapid.IntRange(0, 9).Draw(t, label+"shape")
	first := asciiKeyChars[rapid.IntRange(0, len(asciiKeyChars)-3).Draw(t, label+"first")] // excludes '?' '@'
	switch shape {
	case 0: // one byte
		return []byte{first}
	case 1: // maximal length
		b := make([]byte, 250)
		fill := asciiKeyChars[rapid.IntRange(0, len(asciiKeyChars)-1).Draw(t, label+"fill")]
		for i := range b {
			b[i] = fill
		}
		b[0] = first
		n := rapid.IntRange(0, 9999).Draw(t, label+"tag")
		copy(b[1:], fmt.Sprintf("%04d", n))
		return b
	case 2: // path like
		return []byte(fmt.Sprintf("/%c/photo/%d/large.jpg", first, rapid.IntRange(0, 99).Draw(t, label+"id")))
	case 3: // multi-byte UTF-8 letters
		return []byte(fmt.Sprintf("%c键值-αβγ-%d", first, rapid.IntRange(0, 99).Draw(t, label+"id")))
	case 4: // raw high bytes that never form valid UTF-8 (lone continuation bytes, 0xf8..0xff)
		n := rapid.IntRange(1, 12).Draw(t, label+"n")
		b := []byte{first}
		for i := 0; i < n; i++ {
			hb := rapid.IntRange(0, 71).Draw(t, label+"hb")
			if hb < 64 {
				b = append(b, 'x', byte(0x80+hb))
			} else {
				b = append(b, byte(0xf8+hb-64))
			}
		}
		return b
	case 5: // punctuation incl. '?' '@' after the first byte
		n := rapid.IntRange(1, 20).Draw(t, label+"n")
		b := []byte{first}
		for i := 0; i < n; i++ {
			b = append(b, asciiKeyChars[rapid.IntRange(0, len(asciiKeyChars)-1).Draw(t, label+"c")])
		}
		return b
	case 6, 7: // short keys differing in the last byte
		return []byte(fmt.Sprintf("k%c%d", first, rapid.IntRange(0, 9).Draw(t, label+"d")))
	default:
		n := rapid.IntRange(2, 60).Draw(t, label+"n")
		b := make([]byte, n)
		b[0] = first
		for i := 1; i < n; i++ {
			b[i] = asciiKeyChars[rapid.IntRange(0, 61).Draw(t, label+"c")]
		}
		return b
	}
}

func genKeys(t *rapid.T, min, max int) [][]byte {
	n := rapid.IntRange(min, max).Draw(t, "nkeys")
	seen := map[string]bool{}
	var keys [][]byte
	for i := 0; len(keys) < n && i < n*4; i++ {
		k := genKey(t, fmt.Sprintf("key%d.", i))
		if !seen[string(k)] {
			seen[string(k)] = true
			keys = append(keys, k)
		}
	}
	if len(keys) == 0 {
		keys = append(keys, []byte("k"))
	}
	return keys
}

func genCfg(t *rapid.T, p *genProfile) Cfg {
	c := Cfg{}
	buckets := p.buckets
	if buckets == nil {
		// opening a bucket costs ~30 ms of CPU (998 directory scans and 2x998 stats), 16 buckets 0.5 s, 256 buckets
		// ~10 CPU-seconds: multi-bucket configurations are a small minority here (C15 is dedicated to routing)
		// (rapid's integers are biased towards the bounds of their range, so the rare classes sit in the middle)
		switch x := rapid.IntRange(0, 199).Draw(t, "bucketclass"); {
		case x == 100 || (x == 99 && verifkit.Thorough()):
			buckets = []int{256}
		case x > 100 && x <= 114:
			buckets = []int{16}
		default:
			buckets = []int{1}
		}
	}
	c.NumBucket = rapid.SampledFrom(buckets).Draw(t, "buckets")
	maxH := 4
	if verifkit.Thorough() {
		maxH = 5
	}
	if p.maxHeight > 0 {
		maxH = p.maxHeight
	}
	if maxH > 8-c.depth() {
		maxH = 8 - c.depth()
	}
	c.TreeHeight = rapid.IntRange(2, maxH).Draw(t, "height")
	if c.NumBucket == 256 && c.TreeHeight > 3 {
		c.TreeHeight = 3
	}
	if p.checkVHash != nil {
		c.CheckVHash = *p.checkVHash
	} else {
		c.CheckVHash = rapid.IntRange(0, 2).Draw(t, "check_vhash") == 0
	}
	if p.tinyFiles {
		c.DataFileMax = int64(256 * rapid.IntRange(3, 12).Draw(t, "dfm_blocks"))
	} else {
		c.DataFileMax = rapid.SampledFrom([]int64{1024, 2048, 4096, 16 << 10, 256 << 10, 4000 << 20}).Draw(t, "dfm")
	}
	c.SplitCap = rapid.SampledFrom([]int64{2, 3, 5, 16, 1024}).Draw(t, "splitcap")
	if c.NumBucket == 1 && rapid.IntRange(0, 19).Draw(t, "defsplit") == 0 {
		c.SplitCap = 1 << 20
	}
	c.IndexInterval = rapid.SampledFrom([]int64{32, 300, 512, 4096}).Draw(t, "ii")
	c.BodyMax = rapid.SampledFrom([]int64{512, 4096, 64 << 10, 1 << 20}).Draw(t, "bodymax")
	if p.tinyFiles {
		// small body_max makes "append to an earlier, not full file" a frequent GC destination
		c.BodyMax = rapid.SampledFrom([]int64{300, 512, 512, 1024, 4096}).Draw(t, "bodymax_tiny")
	}
	if p.compress {
		c.DataFileMax = rapid.SampledFrom([]int64{256 << 10, 8 << 20, 4000 << 20}).Draw(t, "dfm_c")
		c.BodyMax = 800 << 10
	}
	if p.bigValues {
		c.BodyMax = 50 << 20
		c.DataFileMax = 4000 << 20
	}
	// implicit precondition of every deployment (4000M files, 50M bodies): a data file holds at least one record of
	// maximal size; GC's destination bookkeeping relies on it (a record larger than a file makes the destination
	// run ahead of the source)
	if c.BodyMax > c.DataFileMax-512 {
		c.BodyMax = c.DataFileMax - 512
	}
	c.BodyInC = rapid.SampledFrom([]int64{0, 64, 4096}).Draw(t, "bodyinc")
	c.BufIOCap = rapid.SampledFrom([]int{16, 300, 4096, 1 << 20}).Draw(t, "bufio")
	c.FlushInterval = rapid.SampledFrom([]int{0, 0, 3600}).Draw(t, "flushint")
	c.TreeDump = rapid.SampledFrom([]int{0, 1, 3}).Draw(t, "treedump")
	c.NoMerged = rapid.IntRange(0, 4).Draw(t, "nomerged") == 0
	if p.park {
		c.ParkRotFlush = rapid.IntRange(0, 2).Draw(t, "park") == 0
	}
	maxKeys := 24
	if p.maxKeys > 0 {
		maxKeys = p.maxKeys
	}
	c.Keys = genKeys(t, 1, maxKeys)
	if p.groups && len(c.Keys) >= 2 {
		ng := rapid.IntRange(1, 2).Draw(t, "ngroups")
		next := 0
		for g := 0; g < ng && next+2 <= len(c.Keys); g++ {
			sz := rapid.IntRange(2, 4).Draw(t, "gsize")
			if next+sz > len(c.Keys) {
				sz = len(c.Keys) - next
			}
			grp := []int{}
			for i := 0; i < sz; i++ {
				grp = append(grp, next+i)
			}
			c.Groups = append(c.Groups, grp)
			next += sz
		}
	}
	if p.postCfg != nil {
		p.postCfg(t, &c)
	}
	if p.cfgHook != nil {
		p.cfgHook(t, &c)
		return c
	}
	if c.NumBucket > 1 && rapid.IntRange(0, 3).Draw(t, "partial") == 0 {
		// serve a subset of the buckets
		c.Served = []int{}
		for b := 0; b < c.NumBucket; b++ {
			if rapid.IntRange(0, 2).Draw(t, fmt.Sprintf("serve%d", b)) > 0 {
				c.Served = append(c.Served, b)
			}
		}
	}
	return c
}

// genValue draws a value spec. keyLen steers sizes towards block boundaries of the record.
func genValue(t *rapid.T, c *Cfg, keyLen int, big bool, label string) verifkit.ValSpec {
	class := rapid.SampledFrom([]string{"const", "periodic", "text", "text", "random", "random", "headrand", "tailrand", "mix",
		"wav", "mp3", "wavlike", "midpair", "crlf"}).Draw(t, label+"class")
	var size int
	hdr := verifkit.RecHeader + keyLen
	switch rapid.IntRange(0, 11).Draw(t, label+"sizeclass") {
	case 0:
		size = 0
	case 1:
		size = rapid.IntRange(1, 40).Draw(t, label+"size")
	case 2: // record size around one block
		size = 256 - hdr + rapid.IntRange(-2, 2).Draw(t, label+"d")
	case 3: // around two blocks
		size = 512 - hdr + rapid.IntRange(-2, 2).Draw(t, label+"d")
	case 4, 5:
		size = rapid.IntRange(1, 260).Draw(t, label+"size")
	case 6, 7:
		size = rapid.IntRange(200, 1500).Draw(t, label+"size")
	case 8:
		size = rapid.IntRange(1000, 12000).Draw(t, label+"size")
	case 9: // around the compression probe size
		size = 10240 + rapid.IntRange(-300, 2000).Draw(t, label+"d")
	case 10:
		size = int(c.DataFileMax) - hdr + rapid.IntRange(-300, 10).Draw(t, label+"d")
		if size > 70000 {
			size = rapid.IntRange(0, 70000).Draw(t, label+"size")
		}
	default:
		if big {
			size = rapid.IntRange(100000, 3<<20).Draw(t, label+"size")
		} else {
			size = rapid.IntRange(0, 3000).Draw(t, label+"size")
		}
	}
	if size < 0 {
		size = 0
	}
	if int64(size) > c.BodyMax {
		size = int(c.BodyMax) - rapid.IntRange(0, 1).Draw(t, label+"under")
	}
	return verifkit.ValSpec{Class: class, Size: size, Salt: rapid.Uint32Range(0, 40).Draw(t, label+"salt")}
}

// genValueCompress draws values around the compression decision thresholds: record size 256, probe size 10 KB,
// ratio 0.7, sniffed media types, client-compressed flag (set by the caller), up to MBs in the thorough tier.
func genValueCompress(t *rapid.T, c *Cfg, keyLen int, big bool) verifkit.ValSpec {
	class := rapid.SampledFrom([]string{"mix", "mix", "mix", "text", "text", "periodic", "const", "headrand", "tailrand", "random",
		"wav", "mp3", "wavlike", "crlf"}).Draw(t, "class")
	hdr := verifkit.RecHeader + keyLen
	var size int
	switch rapid.IntRange(0, 9).Draw(t, "sizeclass") {
	case 0, 1:
		size = 256 - hdr + rapid.IntRange(-3, 40).Draw(t, "d")
	case 2:
		size = rapid.IntRange(200, 3000).Draw(t, "size")
	case 3, 4:
		size = 10240 + rapid.IntRange(-400, 400).Draw(t, "d")
	case 5:
		size = rapid.IntRange(10241, 40000).Draw(t, "size")
	case 6:
		size = rapid.IntRange(0, 300).Draw(t, "size")
	case 7:
		if big {
			size = rapid.IntRange(60000, 4<<20).Draw(t, "size")
		} else {
			size = rapid.IntRange(3000, 60000).Draw(t, "size")
		}
	default:
		size = rapid.IntRange(257, 1200).Draw(t, "size")
	}
	if size < 0 {
		size = 0
	}
	if int64(size) > c.BodyMax {
		size = int(c.BodyMax)
	}
	if rapid.IntRange(0, 13).Draw(t, "farmatch") == 0 {
		// repetitions exactly one stride apart, strides around the widths of the compressor's match offset fields
		salt := rapid.Uint32Range(0, 800).Draw(t, "stridesalt")
		size = verifkit.StrideOf(salt)*rapid.IntRange(2, 3).Draw(t, "slots") + rapid.IntRange(0, 300).Draw(t, "extra")
		if int64(size) > c.BodyMax {
			size = int(c.BodyMax)
		}
		return verifkit.ValSpec{Class: "stride", Size: size, Salt: salt}
	}
	return verifkit.ValSpec{Class: class, Size: size, Salt: rapid.Uint32Range(0, 40).Draw(t, "salt")}
}

func genFlag(t *rapid.T, label string) uint32 {
	switch rapid.IntRange(0, 7).Draw(t, label+"flagclass") {
	case 0, 1, 2, 3:
		return 0
	case 4:
		return FLAG_CLIENT_COMPRESS
	case 5:
		return FLAG_INCR
	case 6:
		return rapid.Uint32Range(1, 255).Draw(t, label+"flag")
	default:
		return rapid.Uint32().Draw(t, label+"flag") &^ FLAG_COMPRESS
	}
}

// genOp draws one operation. Operations are independent of each other (so that rapid can delete and
// reorder them while shrinking); "same value as now" and "revision relative to the current version" are
// expressed symbolically and resolved by the interpreter against the model.
func genOp(t *rapid.T, c *Cfg, p *genProfile, kinds []string, inGrp []bool) Op {
	nk := len(c.Keys)
	hot := nk
	if hot > 4 {
		hot = 4
	}
	kind := rapid.SampledFrom(kinds).Draw(t, "kind")
	op := Op{Kind: kind}
	pick := func() int {
		if rapid.IntRange(0, 2).Draw(t, "hot") > 0 {
			return rapid.IntRange(0, hot-1).Draw(t, "k")
		}
		return rapid.IntRange(0, nk-1).Draw(t, "k")
	}
	switch kind {
	case "set":
		op.K = pick()
		mode := rapid.IntRange(0, 9).Draw(t, "valmode")
		switch {
		case mode <= 2: // same value again / same value with other flags / equal-vhash sibling (resolved at run time)
			op.Same = mode + 1
			op.V = genValue(t, c, len(c.Keys[op.K]), false, "")
			op.Flag = genFlag(t, "")
		case mode == 3: // counter
			op.V = verifkit.ValSpec{Class: "decimal", Salt: rapid.Uint32Range(0, 60).Draw(t, "num")}
			op.Flag = FLAG_INCR
			if rapid.IntRange(0, 5).Draw(t, "badflag") == 0 {
				op.Flag = 0
			}
		default:
			op.V = genValue(t, c, len(c.Keys[op.K]), p.bigValues, "")
			op.Flag = genFlag(t, "")
		}
		if p.compress && mode > 3 {
			op.V = genValueCompress(t, c, len(c.Keys[op.K]), p.bigValues)
			op.Flag = rapid.SampledFrom([]uint32{0, 0, 0, 0, FLAG_CLIENT_COMPRESS, 1, 0xfffeffef}).Draw(t, "cflag")
		}
		if !p.noExplicit && !inGrp[op.K] && rapid.IntRange(0, 3).Draw(t, "explicit") == 0 {
			switch rapid.IntRange(0, 5).Draw(t, "revmode") {
			case 0, 1, 2, 3:
				op.RevRel = true
				op.Rev = int32(rapid.IntRange(-3, 6).Draw(t, "revd"))
			case 4:
				op.Rev = int32(rapid.IntRange(1, 12).Draw(t, "rev"))
			default:
				op.Rev = int32(rapid.IntRange(1000, 1<<30).Draw(t, "rev"))
			}
		}
	case "get", "delete":
		op.K = pick()
	case "incr":
		op.K = pick()
		op.Delta = rapid.IntRange(-5, 1000).Draw(t, "delta")
	case "flush":
		op.Force = rapid.IntRange(0, 3).Draw(t, "force") > 0
	case "rotate":
		op.K = pick()
		op.V.Salt = rapid.Uint32Range(0, 40).Draw(t, "salt")
	case "reopen":
		op.Mask = rapid.SampledFrom([]string{"none", "all", "hash", "hints", "last", "subset", "subset", "subset"}).Draw(t, "mask")
		if op.Mask == "subset" {
			op.MaskSel = rapid.Uint64().Draw(t, "sel")
		}
		op.Race = p.park && rapid.IntRange(0, 2).Draw(t, "race") == 0
		if rapid.IntRange(0, 5).Draw(t, "jump") == 0 {
			op.Jump = rapid.SampledFrom([]int{250, 255, 256, 300, 600}).Draw(t, "jumpby")
		}
	case "gc":
		op.Bucket = rapid.IntRange(0, 255).Draw(t, "bucket")
		// ranges starting above file 0 matter (what lies below the range must stay consistent with it): not only -1/0
		op.Begin = rapid.SampledFrom([]int{-1, 0, 1, 2, 3, 2, 1, 4, 5, 6, 8}).Draw(t, "begin")
		op.End = rapid.SampledFrom([]int{-1, -1, 2, 3, 4, 5, 1, 6, 8, 10, 0}).Draw(t, "end")
		op.Merge = rapid.Bool().Draw(t, "merge")
		op.ViaAPI = rapid.IntRange(0, 3).Draw(t, "api") == 0
		op.NoFlush = p.park && rapid.IntRange(0, 1).Draw(t, "noflush") == 0
		// a restart right after the pass, with rebuilt indexes, is where a misplaced record shows
		op.Mask = rapid.SampledFrom([]string{"", "", "all", "hash", "", "hints", "all"}).Draw(t, "thenreopen")
	}
	return op
}

func opKinds(p *genProfile) []string {
	kinds := []string{"set", "set", "set", "set", "set", "set", "set", "get", "get", "get", "get", "delete", "delete", "incr",
		"flush", "flush", "dumphints", "rotate", "rotate"}
	if p.compress {
		kinds = []string{"set", "set", "set", "set", "get", "get", "flush", "flush", "delete"}
	}
	if p.kinds != nil {
		kinds = append([]string{}, p.kinds...)
	}
	if p.park {
		kinds = append(kinds, "release")
	}
	if p.reopen {
		kinds = append(kinds, "reopen", "reopen")
		if !p.gc && p.kinds == nil {
			kinds = append(kinds, "merge") // the periodic hint merge (merged hint file *.idx.m, collision table) between restarts
		}
	}
	if p.gc {
		kinds = append(kinds, "gc", "gc", "merge")
	}
	if p.crash {
		kinds = append(kinds, "crash", "crash")
	}
	return kinds
}

// genOps draws a history as a slice of independent operations.
func genOps(t *rapid.T, c *Cfg, p *genProfile) []Op {
	kinds := opKinds(p)
	inGrp := make([]bool, len(c.Keys))
	for _, g := range c.Groups {
		for _, k := range g {
			inGrp[k] = true
		}
	}
	gen := rapid.Custom(func(t *rapid.T) Op { return genOp(t, c, p, kinds, inGrp) })
	// rapid's slices average ~6 elements above the minimum: draw the minimum itself so that long histories are common
	minLen := rapid.IntRange(p.minOps, p.maxOps).Draw(t, "minlen")
	ops := rapid.SliceOfN(gen, minLen, p.maxOps).Draw(t, "ops")
	if p.gc && p.tinyFiles && len(ops) > 4 && rapid.IntRange(0, 2).Draw(t, "short_first_file") == 0 {
		// an early rotation leaves the first data file short: a file with room below every later GC range (GC appends to it)
		at := rapid.IntRange(1, 3).Draw(t, "short_first_file_at")
		ops = append(ops[:at], append([]Op{{Kind: "rotate", K: 0, V: verifkit.ValSpec{Salt: 9}}}, ops[at:]...)...)
	}
	return ops
}
