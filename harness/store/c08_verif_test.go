package store

// C08: the merkle tree listing is an exact, history-independent function of content.

import (
	"encoding/json"
	"fmt"
	"os"
	"path/filepath"
	"sort"
	"strconv"
	"strings"
	"testing"

	"github.com/douban/gobeansdb/verifkit"
	"pgregory.net/rapid"
)

// ---------------------------------------------------------------------------
// independent recomputation of the listing: verifkit/merkle.go (shared with the protocol-level harness)

type refItem = verifkit.RefItem
type refTree = verifkit.RefTree

func hexDigit(h uint64, i int) int { return verifkit.HexDigit(h, i) }
func prefixString(p []int) string  { return verifkit.PrefixString(p) }
func compareListing(rt *refTree, prefix []int, got []byte, tombOK map[uint64]bool) error {
	return verifkit.CompareListing(rt, prefix, got, tombOK)
}

// ---------------------------------------------------------------------------
// tree level

type c08Item struct {
	Hash  uint64 `json:"h"`
	Ver   int32  `json:"ver"`
	Vhash uint16 `json:"vh"`
	Off   uint32 `json:"off"`
}

type c08Step struct {
	Op   string  `json:"op"` // set, remove, dumpload, list
	Item c08Item `json:"item,omitempty"`
}

type c08Case struct {
	NumBucket int       `json:"nb"`
	Height    int       `json:"th"`
	Bucket    int       `json:"bucket"`
	Final     []c08Item `json:"final"` // final content (distinct hashes), tombstones have Ver < 0
	// two histories leading to the same live content
	A        []c08Step `json:"a"`
	B        []c08Step `json:"b"`
	Prefixes []string  `json:"prefixes"` // extra prefixes to list (hex, relative to nothing: full paths)
}

func c08KI(h uint64) *KeyInfo {
	ki := &KeyInfo{KeyHash: h}
	ki.Prepare()
	return ki
}

func c08Apply(tree *HTree, steps []c08Step, dir string, tag string) (*HTree, error) {
	for i, s := range steps {
		switch s.Op {
		case "set":
			m := Meta{Ver: s.Item.Ver, ValueHash: s.Item.Vhash}
			tree.set(c08KI(s.Item.Hash), &m, Position{ChunkID: int(s.Item.Off >> 24 & 0xff), Offset: s.Item.Off << 8})
		case "remove":
			tree.remove(c08KI(s.Item.Hash), Position{ChunkID: -1})
		case "dumpload":
			p := filepath.Join(dir, fmt.Sprintf("%s-%d.hash", tag, i))
			tree.dump(p)
			nt := newHTree(tree.depth, tree.bucketID, len(tree.levels))
			if err := nt.load(p); err != nil {
				return nil, fmt.Errorf("load of a dumped tree failed: %v", err)
			}
			tree.release()
			tree = nt
		case "list": // listing in the middle of a history must not change later results (lazy recomputation)
			ki := &KeyInfo{StringKey: prefixString(pathOfBucket(tree)), KeyIsPath: true}
			ki.Key = []byte(ki.StringKey)
			ki.Prepare()
			tree.ListDir(ki)
		}
	}
	return tree, nil
}

func pathOfBucket(tree *HTree) []int {
	p := []int{}
	for i := tree.depth - 1; i >= 0; i-- {
		p = append(p, (tree.bucketID>>uint(4*i))&0xf)
	}
	return p
}

func c08Run(c *c08Case) (err error) {
	defer func() {
		if e := recover(); e != nil {
			err = panicToError(e)
		}
	}()
	dir := newHome()
	defer os.RemoveAll(dir)
	conf := &HStoreConfig{}
	conf.InitDefault()
	conf.Init()
	conf.Home = dir
	conf.NumBucket = c.NumBucket
	conf.TreeHeight = c.Height
	conf.InitTree()
	Conf = conf
	depth := conf.TreeDepth

	rt := &refTree{Depth: depth, Height: c.Height, Items: map[uint64]refItem{}}
	for _, it := range c.Final {
		rt.Items[it.Hash] = refItem{Ver: it.Ver, Vhash: it.Vhash}
	}
	ta, err := c08Apply(newHTree(depth, c.Bucket, c.Height), c.A, dir, "a")
	if err != nil {
		return err
	}
	defer func() { ta.release() }()
	tb, err := c08Apply(newHTree(depth, c.Bucket, c.Height), c.B, dir, "b")
	if err != nil {
		return err
	}
	defer func() { tb.release() }()

	// prefixes: every prefix on the path of a stored hash (length depth..16) plus the extra ones
	pset := map[string][]int{}
	add := func(p []int) { pset[prefixString(p)] = append([]int{}, p...) }
	for h := range rt.Items {
		full := make([]int, 16)
		for i := range full {
			full[i] = hexDigit(h, i)
		}
		for l := depth; l <= 16; l++ {
			add(full[:l])
		}
	}
	for _, s := range c.Prefixes {
		p := []int{}
		for _, ch := range s {
			d, _ := strconv.ParseInt(string(ch), 16, 0)
			p = append(p, int(d))
		}
		if len(p) >= depth && len(p) <= 16 {
			add(p)
		}
	}
	add(pathOfBucket(ta))
	names := make([]string, 0, len(pset))
	for n := range pset {
		names = append(names, n)
	}
	sort.Strings(names)
	// tombstones that either history may legitimately still list
	tomb := map[uint64]bool{}
	for _, steps := range [][]c08Step{c.A, c.B} {
		for _, s := range steps {
			if s.Op == "set" && s.Item.Ver < 0 {
				tomb[s.Item.Hash] = true
			}
		}
	}
	for _, n := range names {
		p := pset[n]
		inBucket := true
		bp := pathOfBucket(ta)
		for i := range bp {
			if i < len(p) && p[i] != bp[i] {
				inBucket = false
			}
		}
		if !inBucket {
			continue
		}
		ki := &KeyInfo{StringKey: n, Key: []byte(n), KeyIsPath: true}
		ki.Prepare()
		ga, err := ta.ListDir(ki)
		if err != nil {
			return fmt.Errorf("ListDir(%q) on tree A: %v", n, err)
		}
		ki2 := &KeyInfo{StringKey: n, Key: []byte(n), KeyIsPath: true}
		ki2.Prepare()
		gb, err := tb.ListDir(ki2)
		if err != nil {
			return fmt.Errorf("ListDir(%q) on tree B: %v", n, err)
		}
		if err := compareListing(rt, p, ga, tomb); err != nil {
			return fmt.Errorf("history A: %v", err)
		}
		if err := compareListing(rt, p, gb, tomb); err != nil {
			return fmt.Errorf("history B: %v", err)
		}
		// pairwise: node listings exactly equal, item listings equal as sets of live entries
		la, lb := liveLines(ga), liveLines(gb)
		if la != lb {
			return fmt.Errorf("prefix %q: the two histories list differently:\nA: %.300q\nB: %.300q", n, la, lb)
		}
	}
	return nil
}

func liveLines(b []byte) string {
	var out []string
	for _, l := range strings.Split(string(b), "\n") {
		if l == "" {
			continue
		}
		f := strings.Fields(l)
		if len(f) == 3 && !strings.HasSuffix(f[0], "/") {
			if v, _ := strconv.Atoi(f[2]); v < 0 {
				continue
			}
			out = append(out, l)
			continue
		}
		out = append(out, l)
	}
	if len(out) > 0 && !strings.HasSuffix(strings.Fields(out[0])[0], "/") {
		sort.Strings(out)
	}
	return strings.Join(out, "\n")
}

func c08Gen(t *rapid.T) *c08Case {
	c := &c08Case{}
	c.NumBucket = rapid.SampledFrom([]int{1, 1, 16, 256}).Draw(t, "nb")
	depth := map[int]int{1: 0, 16: 1, 256: 2}[c.NumBucket]
	maxH := 4
	if verifkit.Thorough() {
		maxH = 5
	}
	if maxH > 8-depth {
		maxH = 8 - depth
	}
	c.Height = rapid.IntRange(2, maxH).Draw(t, "height")
	c.Bucket = rapid.IntRange(0, c.NumBucket-1).Draw(t, "bucket")
	bucketBits := uint64(c.Bucket) << uint(64-4*depth)
	if depth == 0 {
		bucketBits = 0
	}
	// hashes concentrated under 1..3 prefixes of a drawn length so that node counts straddle 256 and leaves 100
	npre := rapid.IntRange(1, 3).Draw(t, "npre")
	type pre struct {
		bits uint64
		len  int
	}
	pres := make([]pre, npre)
	for i := range pres {
		l := rapid.IntRange(depth, depth+c.Height).Draw(t, "prelen")
		if l > 12 {
			l = 12
		}
		v := rapid.Uint64().Draw(t, "prebits")
		shift := uint(64 - 4*l)
		var bits uint64
		if l > 0 {
			bits = (v >> shift) << shift
		}
		if depth > 0 {
			mask := ^uint64(0) >> uint(4*depth)
			bits = bucketBits | (bits & mask)
		}
		pres[i] = pre{bits, l}
	}
	target := rapid.SampledFrom([]int{256, 257, 300, 100, 101, 520, 255, 99, 150, 40, 5, 1, 0}).Draw(t, "nitems")
	n := target + rapid.IntRange(0, 3).Draw(t, "extra")
	seen := map[uint64]bool{}
	salt := rapid.Uint64().Draw(t, "salt")
	// share of deleted keys: mostly 1 in 9; sometimes a half or a third, so that a node listed item by item
	// (fewer than 256 live keys) carries far more tombstones than live keys
	tombEvery := uint64(rapid.SampledFrom([]int{9, 9, 9, 2, 3, 9, 2}).Draw(t, "tombevery"))
	x := salt | 1
	next := func() uint64 { x ^= x << 13; x ^= x >> 7; x ^= x << 17; return x }
	for len(c.Final) < n {
		p := pres[int(next()%uint64(npre))]
		low := next()
		if rapid.IntRange(0, 20).Draw(t, "lowclass") == 0 {
			low = uint64(rapid.IntRange(0, 3).Draw(t, "lowsmall"))
		}
		var h uint64
		if p.len == 0 {
			h = low
		} else {
			h = p.bits | (low & (^uint64(0) >> uint(4*p.len)))
		}
		if depth > 0 {
			h = bucketBits | (h & (^uint64(0) >> uint(4*depth)))
		}
		if seen[h] {
			continue
		}
		seen[h] = true
		it := c08Item{Hash: h, Ver: int32(next()%50) + 1, Vhash: uint16(next()), Off: uint32(next() % (1 << 20))}
		if next()%tombEvery == 0 {
			it.Ver = -it.Ver
		}
		if next()%17 == 0 {
			it.Vhash = 0
		}
		c.Final = append(c.Final, it)
	}
	// history A: insertion in order with redundant overwrites, delete-then-reset, remove/re-add, listing in between
	build := func(label string, order []int) []c08Step {
		var steps []c08Step
		for _, idx := range order {
			it := c.Final[idx]
			switch rapid.IntRange(0, 7).Draw(t, label+"mode") {
			case 0: // older version first
				old := it
				old.Ver = 1
				if it.Ver < 0 {
					old.Ver = 3
				}
				old.Vhash = it.Vhash + 7
				steps = append(steps, c08Step{Op: "set", Item: old})
			case 1: // tombstone first, then the final entry at a forced version
				ts := it
				ts.Ver = -absI32(it.Ver) - 1
				ts.Vhash = 0
				steps = append(steps, c08Step{Op: "set", Item: ts})
			case 2: // set, remove, re-add
				steps = append(steps, c08Step{Op: "set", Item: it}, c08Step{Op: "remove", Item: it})
			case 3: // an unrelated key that is set and removed again (must leave no trace)
				g := it
				g.Hash ^= 0x5a5a
				if depth > 0 {
					g.Hash = bucketBits | (g.Hash & (^uint64(0) >> uint(4*depth)))
				}
				if !seen[g.Hash] {
					g.Ver = 2
					steps = append(steps, c08Step{Op: "set", Item: g}, c08Step{Op: "remove", Item: g})
				}
			}
			steps = append(steps, c08Step{Op: "set", Item: it})
			if it.Ver < 0 && rapid.IntRange(0, 2).Draw(t, label+"droptomb") == 0 {
				steps = append(steps, c08Step{Op: "remove", Item: it}) // a rebuilt tree does not hold tombstones
			}
			switch rapid.IntRange(0, 60).Draw(t, label+"extra") {
			case 0:
				steps = append(steps, c08Step{Op: "dumpload"})
			case 1, 2:
				steps = append(steps, c08Step{Op: "list"})
			}
		}
		if rapid.IntRange(0, 3).Draw(t, label+"finaldump") == 0 {
			steps = append(steps, c08Step{Op: "dumpload"})
		}
		return steps
	}
	orderA := make([]int, len(c.Final))
	for i := range orderA {
		orderA[i] = i
	}
	orderB := rapid.Permutation(orderA).Draw(t, "permB")
	c.A = build("a.", orderA)
	c.B = build("b.", orderB)
	np := rapid.IntRange(0, 4).Draw(t, "nprefix")
	for i := 0; i < np; i++ {
		l := rapid.IntRange(depth, 16).Draw(t, "plen")
		v := rapid.Uint64().Draw(t, "pbits")
		if depth > 0 {
			v = bucketBits | (v & (^uint64(0) >> uint(4*depth)))
		}
		s := fmt.Sprintf("%016x", v)[:l]
		c.Prefixes = append(c.Prefixes, s)
	}
	return c
}

func absI32(v int32) int32 {
	if v < 0 {
		return -v
	}
	return v
}

func TestVerif_C08_Tree(t *testing.T) {
	st := verifkit.StatsFor("TestVerif_C08_Tree")
	rapid.Check(t, func(t *rapid.T) {
		c := c08Gen(t)
		err := c08Run(c)
		if err != nil && isInfra(err) {
			t.Fatalf("%v", err)
		}
		live := 0
		for _, it := range c.Final {
			if it.Ver > 0 {
				live++
			}
		}
		var labels []string
		if live >= 256 {
			labels = append(labels, "count>=256")
		}
		if live >= 100 {
			labels = append(labels, "items>=100")
		}
		if live > 256 {
			labels = append(labels, "count>256")
		}
		if len(c.Final)-live > 64 {
			labels = append(labels, "tombstones>64")
		}
		dl := false
		for _, s := range append(append([]c08Step{}, c.A...), c.B...) {
			if s.Op == "dumpload" {
				dl = true
			}
		}
		if dl {
			labels = append(labels, "dump_load")
		}
		labels = append(labels, fmt.Sprintf("buckets=%d", c.NumBucket))
		sample := map[string]interface{}{"nb": c.NumBucket, "height": c.Height, "bucket": c.Bucket, "items": len(c.Final), "steps_a": len(c.A), "steps_b": len(c.B), "first_items": firstN(c.Final, 4)}
		st.Case(labels, err == nil && live >= 100, canon(c), sample)
		if err != nil {
			verifkit.Fail("C08", "TestVerif_C08_Tree", c, err.Error())
			t.Fatalf("%v", err)
		}
	})
}

func firstN(a []c08Item, n int) []c08Item {
	if len(a) > n {
		return a[:n]
	}
	return a
}

func init() {
	replayers["TestVerif_C08_Tree"] = func(raw json.RawMessage) error {
		c := &c08Case{}
		if err := json.Unmarshal(raw, c); err != nil {
			return err
		}
		return c08Run(c)
	}
}
