package store

import (
	"bytes"
	"fmt"
	"path/filepath"
	"testing"

	"github.com/douban/gobeansdb/verifkit"
)

// C10 (store level): server-side compression is invisible to clients. The reads of the interpreter already compare
// bytes, flags and the tree's value hash (against the reference hash of the uncompressed value) on every read path;
// this hook additionally inspects what is on disk with the independent scanner and the pure-Go decompressor.
func c10DiskCheck(r *histRunner, where string) error {
	for _, bkt := range r.store.buckets {
		if bkt.State != BUCKET_STAT_READY {
			continue
		}
		newest := map[string]verifkit.ScanRec{}
		paths, _ := filepath.Glob(filepath.Join(bkt.Home, "*.data"))
		for _, p := range paths { // glob order = chunk order
			recs, _, _ := verifkit.ScanFile(p, 250, r.h.Cfg.BodyMax+500)
			for _, rc := range recs {
				newest[string(rc.Key)] = rc
			}
		}
		for k, m := range r.model {
			if m.State != stLive {
				continue
			}
			rc, ok := newest[string(r.h.Cfg.Keys[k])]
			if !ok || m.DataVer == 0 || rc.Ver != m.DataVer {
				continue // newest write still buffered / version not tracked
			}
			if rc.Flag&^FLAG_COMPRESS != m.Flag {
				return fmt.Errorf("%s: record of %q on disk has flags %#x, client flags %#x", where, rc.Key, rc.Flag, m.Flag)
			}
			val, err := storedValue(&rc)
			if err != nil {
				return fmt.Errorf("%s: record of %q compressed by the C library cannot be decompressed by the Go implementation: %v", where, rc.Key, err)
			}
			if !bytes.Equal(val, m.Val) {
				return fmt.Errorf("%s: record of %q on disk decompresses (Go implementation) to %s, written %s", where, rc.Key, short(val), short(m.Val))
			}
			if rc.Flag&FLAG_COMPRESS != 0 {
				r.label("compressed_on_disk")
				if m.Flag&FLAG_CLIENT_COMPRESS != 0 {
					return fmt.Errorf("%s: value of %q was compressed by the server although the client marked it as compressed", where, rc.Key)
				}
			} else if len(m.Val) > 300 {
				r.label("uncompressed_on_disk")
			}
		}
	}
	return nil
}

var c10Store = &histCheck{
	property: "C10",
	name:     "TestVerif_C10_Store",
	profile: func() *genProfile {
		f := false
		p := &genProfile{minOps: 3, maxOps: 30, reopen: true, compress: true, maxKeys: 6, checkVHash: &f, buckets: []int{1}, noExplicit: true}
		if thorough() {
			p.bigValues = true
		}
		return p
	},
	opts: func() runOpts {
		return runOpts{onStep: func(r *histRunner, i int, op *Op) error {
			if (op.Kind == "flush" && op.Force) || op.Kind == "reopen" {
				return c10DiskCheck(r, "after "+op.Kind)
			}
			return nil
		}}
	},
	nontrivial: func(r *histRunner) bool {
		return r.labels["compressed_on_disk"] && (r.readsAny["file-head"] > 0 || r.readsAny["file-old"] > 0)
	},
}

func TestVerif_C10_Store(t *testing.T) { c10Store.check(t) }

func init() { c10Store.register() }
