package store

// C09: data records round-trip, stay 256-aligned, and corruption is detected.

import (
	"bytes"
	"encoding/binary"
	"encoding/json"
	"fmt"
	"os"
	"path/filepath"
	"testing"

	"github.com/douban/gobeansdb/cmem"
	"github.com/douban/gobeansdb/config"
	"github.com/douban/gobeansdb/verifkit"
	"pgregory.net/rapid"
)

type c09Rec struct {
	Key  []byte           `json:"key"`
	V    verifkit.ValSpec `json:"v"`
	Flag uint32           `json:"flag"`
	Ver  int32            `json:"ver"`
	TS   uint32           `json:"ts"`
}

type c09Damage struct {
	Kind string `json:"kind"` // bitflip, overwrite, zeroblock, truncate, size
	Rec  int    `json:"rec"`  // target record
	Part string `json:"part"` // header, key, value, padding (bitflip/overwrite/truncate)
	Off  int    `json:"off"`  // offset inside the part (taken modulo its length)
	Bit  int    `json:"bit,omitempty"`
	Data []byte `json:"data,omitempty"`
	// size: which field and which value class
	Field string `json:"field,omitempty"` // ksz | vsz
	Size  string `json:"size,omitempty"`  // 0,1,251,max,max+1,2^31,2^32-1,toEOF,pastEOF,raw
	Raw   uint32 `json:"raw,omitempty"`
}

type c09Case struct {
	BodyMax int64       `json:"bm"`
	BufIO   int         `json:"bio"`
	Recs    []c09Rec    `json:"recs"`
	Damage  []c09Damage `json:"damage"`
}

type c09Layout struct {
	off, ksz, vsz, size uint32
	body                []byte
}

func c09Run(c *c09Case) (labels []string, err error) {
	defer func() {
		if e := recover(); e != nil {
			err = panicToError(e)
		}
	}()
	lab := map[string]bool{}
	defer func() {
		for l := range lab {
			labels = append(labels, l)
		}
	}()
	dir := newHome()
	defer os.RemoveAll(dir)
	mc := config.DefaultMCConfig
	mc.BodyMax = c.BodyMax
	mc.BodyInC = 64
	mc.BodyBig = 1 << 20
	mc.FlushMax = 100 << 20
	config.MCConf = mc
	conf := &HStoreConfig{}
	conf.InitDefault()
	conf.Init()
	conf.BufIOCap = c.BufIO
	Conf = conf
	cmem.DBRL.ResetAll()

	path := filepath.Join(dir, "000.data")
	w, err := GetStreamWriter(path, false)
	if err != nil {
		return nil, infraf("GetStreamWriter: %v", err)
	}
	var lay []c09Layout
	var want []byte
	for i, rc := range c.Recs {
		body := rc.V.Expand()
		if int64(len(body)) > c.BodyMax {
			body = body[:c.BodyMax]
		}
		rec := &Record{Key: rc.Key, Payload: &Payload{Meta: Meta{TS: rc.TS, Flag: rc.Flag, Ver: rc.Ver}}}
		rec.Payload.Body = append([]byte(nil), body...)
		off, err := w.Append(rec)
		if err != nil {
			return nil, fmt.Errorf("Append of record %d: %v", i, err)
		}
		enc := verifkit.EncodeRecord(rc.TS, rc.Flag, rc.Ver, rc.Key, body)
		if off != uint32(len(want)) {
			return nil, fmt.Errorf("record %d appended at offset %d, reference layout says %d", i, off, len(want))
		}
		lay = append(lay, c09Layout{off: off, ksz: uint32(len(rc.Key)), vsz: uint32(len(body)), size: uint32(len(enc)), body: body})
		want = append(want, enc...)
	}
	if err := w.Close(); err != nil {
		return nil, fmt.Errorf("Close: %v", err)
	}
	got, err := os.ReadFile(path)
	if err != nil {
		return nil, infraf("read back: %v", err)
	}
	// (1) bytes equal the reference encoder's, whole number of 256-byte blocks
	if len(got)%256 != 0 {
		return nil, fmt.Errorf("file size %d is not a multiple of 256", len(got))
	}
	if !bytes.Equal(got, want) {
		i := 0
		for i < len(got) && i < len(want) && got[i] == want[i] {
			i++
		}
		return nil, fmt.Errorf("file bytes differ from the reference encoding at offset %d (sizes %d vs %d)", i, len(got), len(want))
	}
	// (2) intact file: positional and sequential reads return exactly what was written
	if err := c09CheckReads(c, path, lay, got, got, lab, false); err != nil {
		return nil, fmt.Errorf("undamaged file: %v", err)
	}
	if len(c.Damage) == 0 {
		return nil, nil
	}
	// (3) damage
	dam := append([]byte(nil), got...)
	for _, d := range c.Damage {
		dam = c09Apply(c, d, lay, dam, lab)
	}
	if err := os.WriteFile(path, dam, 0644); err != nil {
		return nil, infraf("write damaged: %v", err)
	}
	if err := c09CheckReads(c, path, lay, got, dam, lab, true); err != nil {
		return nil, fmt.Errorf("damaged file: %v", err)
	}
	if cmem.DBRL.GetData.Count < 0 || cmem.DBRL.GetData.Size < 0 {
		return nil, fmt.Errorf("read buffer accounting went negative: %+v", cmem.DBRL.GetData)
	}
	return nil, nil
}

func c09Apply(c *c09Case, d c09Damage, lay []c09Layout, b []byte, lab map[string]bool) []byte {
	if len(lay) == 0 {
		return b
	}
	l := lay[d.Rec%len(lay)]
	partRange := func() (uint32, uint32) {
		stored := 24 + l.ksz + l.vsz
		switch d.Part {
		case "header":
			return l.off, 24
		case "key":
			return l.off + 24, l.ksz
		case "value":
			if l.vsz == 0 {
				return l.off + 24, l.ksz
			}
			return l.off + 24 + l.ksz, l.vsz
		default: // padding
			if l.size == stored {
				return l.off, 24
			}
			return l.off + stored, l.size - stored
		}
	}
	start, n := partRange()
	pos := int(start) + d.Off%int(n)
	switch d.Kind {
	case "bitflip":
		if pos < len(b) {
			b[pos] ^= 1 << uint(d.Bit%8)
		}
	case "overwrite":
		for i, x := range d.Data {
			if pos+i < len(b) {
				b[pos+i] = x
			}
		}
	case "zeroblock":
		blk := (pos / 256) * 256
		for i := blk; i < blk+256 && i < len(b); i++ {
			b[i] = 0
		}
	case "truncate":
		if pos < len(b) {
			b = b[:pos]
			lab["truncated"] = true
		}
	case "size":
		var v uint32
		fieldOff := l.off + 16
		if d.Field == "vsz" {
			fieldOff = l.off + 20
		}
		other := l.ksz
		if d.Field == "ksz" {
			other = l.vsz
		}
		toEOF := int64(len(b)) - int64(l.off) - 24 - int64(other)
		switch d.Size {
		case "0":
			v = 0
		case "1":
			v = 1
		case "251":
			v = 251
		case "max":
			v = uint32(c.BodyMax)
		case "max+1":
			v = uint32(c.BodyMax) + 1
		case "2^31":
			v = 1 << 31
		case "2^32-1":
			v = ^uint32(0)
		case "toEOF":
			if toEOF >= 0 {
				v = uint32(toEOF)
			}
		case "pastEOF":
			if toEOF >= 0 {
				v = uint32(toEOF) + 1
			}
		default:
			v = d.Raw
		}
		if int(fieldOff)+4 <= len(b) {
			binary.LittleEndian.PutUint32(b[fieldOff:], v)
			lab["size_field_damage"] = true
		}
	}
	return b
}

// c09CheckReads checks positional and sequential reads of path (holding dam) against the original image orig.
func c09CheckReads(c *c09Case, path string, lay []c09Layout, orig, dam []byte, lab map[string]bool, damaged bool) error {
	// which records are intact: none of the stored bytes (header, key, value; not the padding) altered or cut
	intact := make([]bool, len(lay))
	nIntact := 0
	firstDamaged := -1
	for i, l := range lay {
		end := int(l.off + 24 + l.ksz + l.vsz)
		intact[i] = end <= len(dam) && bytes.Equal(orig[l.off:end], dam[l.off:end])
		if intact[i] {
			nIntact++
		} else if firstDamaged < 0 {
			firstDamaged = i
		}
	}
	// positional reads
	for i, l := range lay {
		rc := c.Recs[i]
		wrec, err := readRecordAtPath(path, l.off)
		if intact[i] {
			if err != nil {
				return fmt.Errorf("positional read of intact record %d at %d failed: %v", i, l.off, err)
			}
			p := wrec.rec.Payload
			if !bytes.Equal(wrec.rec.Key, rc.Key) || !bytes.Equal(p.Body, l.body) || p.Flag != rc.Flag || p.Ver != rc.Ver || p.TS != rc.TS {
				return fmt.Errorf("positional read of record %d at %d returned other content: key %q flag %#x ver %d ts %d body %s", i, l.off, wrec.rec.Key, p.Flag, p.Ver, p.TS, short(p.Body))
			}
			cmem.DBRL.GetData.SubSizeAndCount(p.CArray.Cap)
			p.CArray.Free()
		} else {
			if err == nil {
				p := wrec.rec.Payload
				return fmt.Errorf("positional read of damaged record %d at %d returned a record (key %q, %d value bytes) instead of an error", i, l.off, wrec.rec.Key, len(p.Body))
			}
			if wrec != nil {
				return fmt.Errorf("positional read returned both a record and an error")
			}
		}
	}
	// sequential scan
	r, err := newDataStreamReader(path, c.BufIO)
	if err != nil {
		return infraf("newDataStreamReader: %v", err)
	}
	defer r.Close()
	byOff := map[uint32]int{}
	for i, l := range lay {
		byOff[l.off] = i
	}
	yielded := make([]bool, len(lay))
	var scanErr error
	errPos := uint32(0)
	for n := 0; ; n++ {
		if n > len(dam)/256+len(lay)+8 {
			return fmt.Errorf("sequential scan does not terminate (%d records yielded from a %d byte file)", n, len(dam))
		}
		rec, off, _, err := r.Next()
		if err != nil {
			scanErr = err
			errPos = r.Offset()
			break
		}
		if rec == nil {
			break
		}
		i, ok := byOff[off]
		if !ok {
			return fmt.Errorf("sequential scan yielded a record at offset %d where none was written (key %q)", off, rec.Key)
		}
		l := lay[i]
		rc := c.Recs[i]
		p := rec.Payload
		if !intact[i] {
			return fmt.Errorf("sequential scan returned damaged record %d at %d as valid (key %q)", i, off, rec.Key)
		}
		if !bytes.Equal(rec.Key, rc.Key) || !bytes.Equal(p.Body, l.body) || p.Flag != rc.Flag || p.Ver != rc.Ver || p.TS != rc.TS {
			return fmt.Errorf("sequential scan returned other content for record %d at %d", i, off)
		}
		if yielded[i] {
			return fmt.Errorf("sequential scan yielded record %d twice", i)
		}
		yielded[i] = true
		if p.CArray.Addr != 0 || p.CArray.Cap != 0 { // records found by resynchronisation are allocated like positional reads
			cmem.DBRL.GetData.SubSizeAndCount(p.CArray.Cap)
			p.CArray.Free()
		}
	}
	if !damaged && scanErr != nil {
		return fmt.Errorf("sequential scan of an undamaged file failed: %v", scanErr)
	}
	after := 0
	for i, l := range lay {
		if !intact[i] || yielded[i] {
			if intact[i] && firstDamaged >= 0 && i > firstDamaged {
				after++
			}
			continue
		}
		// an intact record was not yielded
		if scanErr != nil && l.off > errPos {
			// the scan stopped with an error before reaching it. The format's answer to an unreadable *tail* is to stop;
			// here intact records follow, so this is the known finding (size field reaching past the end of the file),
			// tolerated only when exactly that pattern is present at the position where the scan stopped.
			if verifkit.Known("C09-size-past-eof") && c09PastEOF(c, dam, errPos) {
				lab["excluded:C09-size-past-eof"] = true
				continue
			}
			return fmt.Errorf("sequential scan stopped at offset %d with error %q; intact record %d at offset %d (after the damage) was not yielded", errPos, scanErr, i, l.off)
		}
		return fmt.Errorf("sequential scan skipped intact record %d at offset %d (scan error: %v at %d)", i, l.off, scanErr, errPos)
	}
	if after > 0 {
		lab["intact_after_damage_yielded"] = true
	}
	if damaged && firstDamaged >= 0 && firstDamaged < len(lay)-1 {
		lab["damage_in_non_last_record"] = true
	}
	if scanErr != nil {
		lab["scan_error_at_tail"] = true
	}
	return nil
}

// c09PastEOF: at pos there is a header with valid sizes whose record would reach past the end of the file.
func c09PastEOF(c *c09Case, dam []byte, pos uint32) bool {
	if int(pos)+24 > len(dam) {
		return false
	}
	ksz := binary.LittleEndian.Uint32(dam[pos+16:])
	vsz := binary.LittleEndian.Uint32(dam[pos+20:])
	if ksz == 0 || ksz > 250 || int64(vsz) > c.BodyMax {
		return false
	}
	return int64(pos)+24+int64(ksz)+int64(vsz) > int64(len(dam))
}

func c09Gen(t *rapid.T) *c09Case {
	c := &c09Case{}
	c.BodyMax = rapid.SampledFrom([]int64{256, 1000, 4096, 65536}).Draw(t, "bodymax")
	c.BufIO = rapid.SampledFrom([]int{16, 256, 4096, 1 << 20}).Draw(t, "bufio")
	maxRecs := 20
	if verifkit.Thorough() {
		maxRecs = 50
	}
	recGen := rapid.Custom(func(t *rapid.T) c09Rec {
		r := c09Rec{}
		switch rapid.IntRange(0, 3).Draw(t, "keyclass") {
		case 0:
			r.Key = rapid.SliceOfN(rapid.Byte(), 1, 250).Draw(t, "key") // arbitrary bytes
		case 1:
			r.Key = genKey(t, "")
		default:
			r.Key = []byte(fmt.Sprintf("key-%d", rapid.IntRange(0, 999).Draw(t, "kn")))
		}
		r.V.Class = rapid.SampledFrom([]string{"const", "text", "random", "periodic", "crlf"}).Draw(t, "class")
		switch rapid.IntRange(0, 6).Draw(t, "sizeclass") {
		case 0:
			r.V.Size = 0
		case 1:
			r.V.Size = 256 - 24 - len(r.Key) + rapid.IntRange(-2, 2).Draw(t, "d")
		case 2:
			r.V.Size = 512 - 24 - len(r.Key) + rapid.IntRange(-2, 2).Draw(t, "d")
		case 3:
			r.V.Size = int(c.BodyMax) - rapid.IntRange(0, 2).Draw(t, "d")
		case 4:
			r.V.Size = rapid.IntRange(0, int(c.BodyMax)).Draw(t, "size")
		default:
			r.V.Size = rapid.IntRange(0, 700).Draw(t, "size")
		}
		if r.V.Size < 0 {
			r.V.Size = 0
		}
		if int64(r.V.Size) > c.BodyMax {
			r.V.Size = int(c.BodyMax)
		}
		r.V.Salt = rapid.Uint32Range(0, 50).Draw(t, "salt")
		r.Flag = rapid.Uint32().Draw(t, "flag")
		r.Ver = rapid.Int32().Draw(t, "ver")
		r.TS = rapid.Uint32().Draw(t, "ts")
		return r
	})
	c.Recs = rapid.SliceOfN(recGen, 1, maxRecs).Draw(t, "recs")
	dmgGen := rapid.Custom(func(t *rapid.T) c09Damage {
		d := c09Damage{}
		d.Kind = rapid.SampledFrom([]string{"bitflip", "bitflip", "overwrite", "overwrite", "zeroblock", "truncate", "size", "size"}).Draw(t, "kind")
		d.Rec = rapid.IntRange(0, len(c.Recs)-1).Draw(t, "rec")
		d.Part = rapid.SampledFrom([]string{"header", "header", "key", "value", "value", "padding"}).Draw(t, "part")
		d.Off = rapid.IntRange(0, 70000).Draw(t, "off")
		switch d.Kind {
		case "bitflip":
			d.Bit = rapid.IntRange(0, 7).Draw(t, "bit")
		case "overwrite":
			d.Data = rapid.SliceOfN(rapid.Byte(), 1, 8).Draw(t, "data")
		case "size":
			d.Field = rapid.SampledFrom([]string{"ksz", "vsz", "vsz"}).Draw(t, "field")
			d.Size = rapid.SampledFrom([]string{"0", "1", "251", "max", "max+1", "2^31", "2^32-1", "toEOF", "pastEOF", "raw"}).Draw(t, "sizeval")
			if d.Size == "raw" {
				d.Raw = rapid.Uint32Range(0, 70000).Draw(t, "raw")
			}
		}
		return d
	})
	c.Damage = rapid.SliceOfN(dmgGen, 0, 4).Draw(t, "damage")
	return c
}

func TestVerif_C09_Records(t *testing.T) {
	st := verifkit.StatsFor("TestVerif_C09_Records")
	rapid.Check(t, func(t *rapid.T) {
		c := c09Gen(t)
		labels, err := c09Run(c)
		if err != nil && isInfra(err) {
			t.Fatalf("%v", err)
		}
		has := map[string]bool{}
		out := []string{}
		for _, l := range labels {
			if l == "excluded:C09-size-past-eof" {
				st.Exclude("C09-size-past-eof")
				continue
			}
			has[l] = true
			out = append(out, l)
		}
		if len(c.Damage) > 0 {
			out = append(out, "damaged")
		}
		if len(c.Recs) > 1 {
			out = append(out, "multi_record")
		}
		sample := map[string]interface{}{"bm": c.BodyMax, "nrecs": len(c.Recs), "first": c.Recs[0], "damage": c.Damage}
		st.Case(out, err == nil && has["damage_in_non_last_record"] && has["intact_after_damage_yielded"], canon(c), sample)
		if err != nil {
			verifkit.Fail("C09", "TestVerif_C09_Records", c, err.Error())
			t.Fatalf("%v", err)
		}
	})
}

func init() {
	replayers["TestVerif_C09_Records"] = func(raw json.RawMessage) error {
		c := &c09Case{}
		if err := json.Unmarshal(raw, c); err != nil {
			return err
		}
		_, err := c09Run(c)
		return err
	}
}
