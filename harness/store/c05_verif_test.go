package store

import (
	"encoding/json"
	"fmt"
	"strings"
	"testing"
	"time"

	"github.com/douban/gobeansdb/verifkit"
	"pgregory.net/rapid"
)

// C05: GC running beside live traffic loses no acknowledged write. The GC pass runs in its own goroutine; the hook
// handler parks it at drawn per-record steps while the client thread issues operations, so the interleaving is
// deterministic and shrinkable and the oracle is the sequential reference model.

var gcParkPoints = []string{"gc.rec.checked", "gc.rec.copied", "gc.repoint.got", "gc.rec.repointed", "gc.rec.hinted", "gc.src.begin", "gc.src.cleared", "gc.dst.switch"}

func (r *histRunner) doGCPark(op *Op) error {
	if err := hooks.releaseRotFlush(); err != nil {
		return err
	}
	served := []int{}
	for i, b := range r.store.buckets {
		if b.State == BUCKET_STAT_READY {
			served = append(served, i)
		}
	}
	if len(served) == 0 {
		return nil
	}
	bid := served[op.Bucket%len(served)]
	bkt := r.store.buckets[bid]
	r.store.flushdatas(true)
	begin, end, err := bkt.gcCheckRange(op.Begin, op.End, -1)
	if err != nil {
		r.label("gc_range_rejected")
		return nil
	}
	type parkReq struct {
		idx    int
		resume chan struct{}
	}
	parked := make(chan parkReq)
	done := make(chan struct{})
	counts := map[string]int{}
	used := make([]bool, len(op.Places))
	viaAPI := false
	for _, pl := range op.Places {
		if pl.Point == "gc.pass.enter" {
			viaAPI = true
		}
	}
	relocating := "" // key whose record has been copied but not yet repointed (read by the client thread only while GC is parked)
	handler := func(name string, args ...interface{}) {
		if name == "gc.pass.exit" && viaAPI {
			close(done)
			return
		}
		if len(name) < 3 || name[:3] != "gc." || name == "gc.pass.exit" || name == "gc.request.checked" {
			return
		}
		counts[name]++ // only the GC goroutine gets here
		switch name {
		case "gc.rec.copied":
			relocating = args[1].(string)
		case "gc.rec.repointed":
			relocating = ""
		}
		for i, pl := range op.Places {
			if !used[i] && pl.Point == name && pl.Nth == counts[name] {
				used[i] = true
				req := parkReq{i, make(chan struct{})}
				parked <- req
				<-req.resume
			}
		}
	}
	hooks.mu.Lock()
	prev := hooks.extra
	hooks.extra = handler
	hooks.mu.Unlock()
	defer func() {
		hooks.mu.Lock()
		hooks.extra = prev
		hooks.mu.Unlock()
	}()
	if viaAPI {
		// through HStore.GC, as the admin interface does: the bucket is claimed at request time, so CancelGC reaches a
		// pass that has not entered its first file yet
		b2, e2, err := r.store.GC(bid, op.Begin, op.End, -1, op.Merge, false)
		if err != nil || b2 != begin || e2 != end {
			return fmt.Errorf("HStore.GC(%d,%d,%d) = [%d,%d] %v, gcCheckRange accepted [%d,%d]", bid, op.Begin, op.End, b2, e2, err, begin, end)
		}
		r.label("gc_via_api")
	} else {
		go func() {
			defer close(done)
			r.store.gcMgr.gc(bkt, begin, end, op.Merge)
		}()
	}
	r.gcPasses++
	r.afterAnyGCPass()
	r.label("gc")
	groupsWrittenThisPass := map[int]bool{}
	writesInPass := 0              // client records written while the pass is under way (each is one hint item of the head file)
	unknownGroups := map[int]int{} // collision groups (index) written to during the pass while the collision table did not know them -> writer
	for running := true; running; {
		select {
		case req := <-parked:
			pl := &op.Places[req.idx]
			r.label("parked:" + pl.Point)
			if pl.Point != "gc.pass.enter" && bkt.hints.maxDumpableChunkID != end-1 {
				// gc.go BeforeBucket: "hold all new SETs in hint buffers" - the dumper must not touch files at or above the end of
				// the range while the pass is under way (GC finds keys written during the pass through those buffers)
				close(req.resume)
				for drained := false; !drained; {
					select {
					case q := <-parked:
						close(q.resume)
					case <-done:
						drained = true
					}
				}
				return fmt.Errorf("while GC [%d,%d] is parked at %s: the hint dumper's limit is file %d, not %d: hints of keys written during the pass can leave memory", begin, end, pl.Point, bkt.hints.maxDumpableChunkID, end-1)
			}
			if pl.Cancel {
				r.store.CancelGC(bid)
				r.label("gc_cancelled")
			}
			for j := range pl.Ops {
				cop := &pl.Ops[j]
				var e error
				switch cop.Kind {
				case "set":
					if r.opts.collisions && r.inGrp[cop.K] && op.Merge {
						for gi, g := range r.h.Cfg.Groups {
							for _, k := range g {
								if k == cop.K && !groupsWrittenThisPass[gi] {
									groupsWrittenThisPass[gi] = true
									r.passesWithGroupWrite[gi]++
									if r.passesWithGroupWrite[gi] >= 2 && verifkit.Known("C05-repeated-sibling-writes-across-passes") {
										// known finding (mechanism not isolated): a key of a collision group written by a client during
										// a merge pass, and again during a later merge pass: another key of the group may lose its records
										for _, k2 := range g {
											if k2 != cop.K && r.model[k2].State != stAbsent {
												r.staleOK[k2] = "C05-sibling-hint-dumped-during-pass" // same tolerated outcomes
												r.excluded["C05-repeated-sibling-writes-across-passes"]++
											}
										}
									}
								}
							}
						}
					}
					first := r.inGrp[cop.K] && r.model[cop.K].State == stAbsent
					if r.opts.collisions && r.inGrp[cop.K] && op.Merge {
						if _, known := bkt.hints.collisions.get(getKeyHash(r.h.Cfg.Keys[cop.K]), string(r.h.Cfg.Keys[cop.K])); !known {
							for gi, g := range r.h.Cfg.Groups {
								for _, k := range g {
									if k == cop.K {
										unknownGroups[gi] = cop.K
									}
								}
							}
						}
					}
					e = r.doSet(cop)
					if e == nil && first && r.opts.collisions && verifkit.Known("C05-guess-after-sibling-first-write") {
						// known finding: once a sibling of an undetected collision group is written for the first time during a pass,
						// GC judges the group's remaining records in the source file "newest" by guess and re-enters them one after
						// the other; a key with several records there (say a tombstone and a later value) may afterwards resolve to
						// the older one until it is rewritten
						for _, g := range r.h.Cfg.Groups {
							in := false
							for _, k := range g {
								if k == cop.K {
									in = true
								}
							}
							if in {
								for _, k := range g {
									if k != cop.K && r.model[k].State != stAbsent && r.staleOK[k] == "" {
										r.staleOK[k] = "C05-guess-after-sibling-first-write"
									}
								}
							}
						}
					}
				case "delete":
					e = r.doDelete(cop)
				case "get":
					e = r.checkGet(cop.K, "get while GC is parked")
					if e != nil && relocating == string(r.h.Cfg.Keys[cop.K]) && transientReadError(e) {
						// between the copy of a record and its repoint the tree still names the old position, which an
						// in-place rewrite may just have overwritten: the property rules out wrong values, not a transient
						// error/miss for the key under relocation (the reader "tolerates a position that moved under it")
						r.label("transient_read_during_relocation")
						e = nil
					}
				case "rotate":
					// the data head moves on to the next file while the pass is under way
					e = r.doRotate(cop)
				case "dumphints":
					// one round of the periodic hint dumper while the pass is under way
					e = r.doDumpHints()
					r.label("dumper_round_during_gc")
					if e == nil {
						continue
					}
				default:
					continue
				}
				if e == nil && cop.Kind != "get" && cop.Kind != "dumphints" {
					writesInPass++
				}
				if writesInPass >= int(r.h.Cfg.SplitCap) && verifkit.Known("C05-sibling-hint-dumped-during-pass") {
					// known finding: the merge pass relies on the hints of keys written during the pass staying in memory
					// ("hold all new SETs in hint buffers so collision will be found ... in hint buffer"), but a hint split of the
					// head file that fills up during the pass is dumped all the same; a key of a not yet detected collision
					// group written before that is then invisible to GC, which discards its siblings' records as superseded
					for gi, writer := range unknownGroups {
						for _, k := range r.h.Cfg.Groups[gi] {
							if k != writer && r.model[k].State != stAbsent {
								r.staleOK[k] = "C05-sibling-hint-dumped-during-pass"
							}
						}
						delete(unknownGroups, gi)
					}
				}
				if e == nil && cop.Kind != "get" {
					r.clientWritesInGC++
					e = r.checkGet(cop.K, "read-after-write while GC is parked at "+pl.Point)
				}
				if e != nil && r.opts.collisions && r.inGrp[cop.K] && (transientReadError(e) || strings.Contains(e.Error(), "= tombstone")) {
					// GC drops the hints of a source file when it starts on it and re-enters them record by record: while the
					// pass is inside that file, a colliding key that is found through the hints (its tree slot belongs to a
					// sibling written a moment ago) answers a miss (or finds an older tombstone of its own in another file's
					// hints, which a client sees as a miss as well). A miss during the pass is not a wrong value (C05 rules out
					// another key's or an older value); the sweep after the pass judges every key
					r.label("transient_miss_colliding_key_during_pass")
					e = nil
				}
				if e != nil {
					close(req.resume)
					for drained := false; !drained; { // let the pass finish: later placements are resumed at once
						select {
						case q := <-parked:
							close(q.resume)
						case <-done:
							drained = true
						}
					}
					return fmt.Errorf("while GC [%d,%d] is parked at %s #%d: client op %s: %v", begin, end, pl.Point, pl.Nth, opString(cop, &r.h.Cfg), e)
				}
			}
			close(req.resume)
		case <-done:
			running = false
		case <-time.After(60 * time.Second):
			return infraf("GC goroutine neither parked nor finished within 60s")
		}
	}
	if n := len(bkt.GCHistory); n > 0 {
		st := &bkt.GCHistory[n-1]
		if st.Err != nil {
			return fmt.Errorf("GC pass [%d,%d] of bucket %d ended with error %v", begin, end, bid, st.Err)
		}
		if st.NumReleased > 0 {
			r.label("gc_released")
		}
	}
	return nil
}

func transientReadError(e error) bool {
	m := e.Error()
	return strings.Contains(m, "returned error") || strings.Contains(m, "= miss")
}

func genPlacement(t *rapid.T, c *Cfg, p *genProfile) Placement {
	pl := Placement{}
	pl.Point = rapid.SampledFrom([]string{"gc.rec.copied", "gc.rec.copied", "gc.rec.checked", "gc.rec.copied", "gc.rec.checked", "gc.repoint.got", "gc.rec.repointed",
		"gc.rec.hinted", "gc.src.begin", "gc.src.cleared", "gc.dst.switch"}).Draw(t, "point")
	pl.Nth = rapid.IntRange(1, 6).Draw(t, "nth")
	pl.Cancel = rapid.IntRange(0, 9).Draw(t, "cancel") == 0
	if rapid.IntRange(0, 11).Draw(t, "atstart") == 0 {
		// at the very beginning of the pass (before it has prepared the bucket or opened a destination), mostly to cancel it
		pl.Point, pl.Nth = "gc.pass.enter", 1
		pl.Cancel = rapid.IntRange(0, 3).Draw(t, "cancel_at_start") > 0
	}
	kinds := []string{"set", "set", "set", "set", "delete", "get", "dumphints", "rotate"}
	inGrp := make([]bool, len(c.Keys))
	gen := rapid.Custom(func(t *rapid.T) Op { return genOp(t, c, p, kinds, inGrp) })
	pl.Ops = rapid.SliceOfN(gen, 1, 4).Draw(t, "ops")
	return pl
}

var c05GCTraffic = &histCheck{
	property: "C05",
	name:     "TestVerif_C05_GCTraffic",
	profile: func() *genProfile {
		f := false
		p := &genProfile{minOps: 6, maxOps: 40, reopen: true, tinyFiles: true, maxKeys: 5, buckets: []int{1}, checkVHash: &f, maxHeight: 3,
			kinds: []string{"set", "set", "set", "set", "set", "set", "delete", "rotate", "rotate", "flush", "get", "reopen"}}
		if thorough() {
			p.maxOps = 80
		}
		return p
	},
	postGen: func(t *rapid.T, h *History) {
		// 1..3 GC passes with placements inserted at drawn positions (mostly towards the end), then a final reopen
		p := &genProfile{noExplicit: true}
		n := rapid.IntRange(1, 3).Draw(t, "ngc")
		for i := 0; i < n; i++ {
			op := Op{Kind: "gcpark", Begin: rapid.IntRange(-1, 3).Draw(t, "begin"), End: rapid.IntRange(-1, 6).Draw(t, "end"), Merge: rapid.Bool().Draw(t, "merge")}
			np := rapid.IntRange(1, 3).Draw(t, "nplaces")
			for j := 0; j < np; j++ {
				op.Places = append(op.Places, genPlacement(t, &h.Cfg, p))
			}
			pos := len(h.Ops) - rapid.IntRange(0, len(h.Ops)/3).Draw(t, "pos")
			ops := append([]Op{}, h.Ops[:pos]...)
			ops = append(ops, op)
			h.Ops = append(ops, h.Ops[pos:]...)
		}
		h.Ops = append(h.Ops, Op{Kind: "reopen", Mask: rapid.SampledFrom([]string{"none", "all", "hash"}).Draw(t, "finalmask")})
	},
	opts: func() runOpts { return runOpts{} },
	nontrivial: func(r *histRunner) bool {
		return r.clientWritesInGC > 0 && (r.labels["parked:gc.rec.checked"] || r.labels["parked:gc.rec.copied"] || r.labels["parked:gc.repoint.got"])
	},
}

func TestVerif_C05_GCTraffic(t *testing.T) { c05GCTraffic.check(t) }

func init() { c05GCTraffic.register() }

// Same check over key pools with forced hash-collision groups: GC with hint merging promises to tell colliding keys
// apart also when one of them is written while the pass is under way ("key1 is set before gc, and key2 after that",
// gc.go BeforeBucket). Oracle relaxations for colliding keys are those of C13 (versions not compared; the listed
// C13 findings are excluded by their predicates).
var c05GCCollide = &histCheck{
	property: "C05",
	name:     "TestVerif_C05_GCTrafficCollide",
	profile: func() *genProfile {
		p := c05GCTraffic.profile()
		p.groups = true
		p.maxKeys = 6
		p.noExplicit = true
		p.postCfg = func(t *rapid.T, c *Cfg) {
			c.SplitCap = rapid.SampledFrom([]int64{2, 2, 3, 5, 16}).Draw(t, "splitcap_c05") // dumper rounds find full splits
			if verifkit.Known("C05-sibling-hint-dumped-during-pass") {
				// that finding (a hint split of the head file filling up during the pass) is excluded by construction: with a
				// capacity above the number of records a generated pass can see, no split fills while a pass is under way
				c.SplitCap = rapid.SampledFrom([]int64{32, 64, 1024}).Draw(t, "splitcap_c05_known")
			}
		}
		return p
	},
	postGen: func(t *rapid.T, h *History) {
		// 1-2 keys of a collision group that nothing touches before the first pass: "key1 is set before gc, and key2
		// after that" (gc.go BeforeBucket) needs a sibling that is written for the first time while GC is under way
		first := len(h.Cfg.Keys)
		seen := map[string]bool{}
		for _, k := range h.Cfg.Keys {
			seen[string(k)] = true
		}
		nf := rapid.IntRange(1, 2).Draw(t, "nfresh")
		var fresh []int
		for i := 0; i < nf; i++ {
			k := genKey(t, "fresh"+itoa(i)+".")
			if seen[string(k)] {
				continue
			}
			seen[string(k)] = true
			h.Cfg.Keys = append(h.Cfg.Keys, k)
			fresh = append(fresh, len(h.Cfg.Keys)-1)
		}
		if len(fresh) > 0 {
			// their group: one key the history has been using (outside the generated groups, so that the collision cannot
			// have been noticed before the pass) plus the untouched ones
			inGrp := map[int]bool{}
			for _, g := range h.Cfg.Groups {
				for _, k := range g {
					inGrp[k] = true
				}
			}
			var free []int
			for k := 0; k < first; k++ {
				if !inGrp[k] {
					free = append(free, k)
				}
			}
			if len(free) > 0 {
				e := free[rapid.IntRange(0, len(free)-1).Draw(t, "anchor")]
				h.Cfg.Groups = append(h.Cfg.Groups, append([]int{e}, fresh...))
			} else {
				if len(h.Cfg.Groups) == 0 {
					h.Cfg.Groups = [][]int{{0}}
				}
				h.Cfg.Groups[0] = append(h.Cfg.Groups[0], fresh...)
			}
		}
		c05GCTraffic.postGen(t, h)
		// only passes with the merge step: without it GC cannot tell colliding keys apart (known finding C13-gc-nomerge)
		for i := range h.Ops {
			if h.Ops[i].Kind != "gcpark" {
				continue
			}
			h.Ops[i].Merge = true
			if len(h.Cfg.Keys) > first && rapid.IntRange(0, 1).Draw(t, "template") == 0 {
				// the situation the merge step exists for: a sibling is written for the first time early in the pass, the
				// head moves on, and the periodic hint dumper comes by before GC reaches the older sibling's record
				pl := Placement{Point: rapid.SampledFrom([]string{"gc.src.begin", "gc.rec.checked"}).Draw(t, "tpoint"), Nth: rapid.IntRange(1, 2).Draw(t, "tnth")}
				fk := rapid.IntRange(first, len(h.Cfg.Keys)-1).Draw(t, "tfresh")
				pl.Ops = []Op{
					{Kind: "set", K: fk, V: verifkit.ValSpec{Class: "text", Size: rapid.IntRange(1, 200).Draw(t, "tsize"), Salt: 7}},
					{Kind: "rotate", K: rapid.IntRange(0, first-1).Draw(t, "trot"), V: verifkit.ValSpec{Salt: 3}},
					{Kind: "dumphints"},
				}
				h.Ops[i].Places = append([]Placement{pl}, h.Ops[i].Places...)
			}
			for j := range h.Ops[i].Places {
				pl := &h.Ops[i].Places[j]
				for k := range pl.Ops {
					if pl.Ops[k].Kind == "set" && len(h.Cfg.Keys) > first && rapid.IntRange(0, 2).Draw(t, "tofresh") == 0 {
						pl.Ops[k].K = rapid.IntRange(first, len(h.Cfg.Keys)-1).Draw(t, "freshk")
					}
				}
			}
		}
	},
	opts:       func() runOpts { return runOpts{collisions: true} },
	nontrivial: func(r *histRunner) bool { return r.clientWritesInGC > 0 && r.collideWrites >= 2 },
}

func TestVerif_C05_GCTrafficCollide(t *testing.T) { c05GCCollide.check(t) }

func init() { c05GCCollide.register() }

// Stress variant: real concurrency. Client goroutines write and read shared keys while a background actor keeps
// requesting GC passes over everything below the head (plus the flusher / hint dumper loops of C04, yields injected at
// the store's and GC's hook points). The recorded history is judged by the C04 checker (per-key linearizability with
// porcupine, version/real-time invariants, final value = highest version, also after a restart): "clients writing and
// reading the same bucket keep the guarantees of C04".
func TestVerif_C05_Stress(t *testing.T) {
	st := verifkit.StatsFor("TestVerif_C05_Stress")
	defer verifkit.ClearCurrent()
	rapid.Check(t, func(t *rapid.T) {
		c := c04Gen(t)
		c.GC = rapid.IntRange(1, 2).Draw(t, "gcmode")
		c.CloseRace = false
		if c.Flusher == 0 {
			c.Flusher = rapid.IntRange(1, 2).Draw(t, "flusher_on") // GC reads the files: production always runs the flusher
		}
		// small files, so that several are below the head while the clients run
		c.Cfg.DataFileMax = int64(256 * rapid.IntRange(3, 6).Draw(t, "dfm_blocks_stress"))
		if c.Cfg.BodyMax > c.Cfg.DataFileMax-512 {
			c.Cfg.BodyMax = c.Cfg.DataFileMax - 512
		}
		for ci := range c.Clients {
			for oi := range c.Clients[ci] {
				if int64(c.Clients[ci][oi].Size)+40 > c.Cfg.BodyMax {
					c.Clients[ci][oi].Size = 0
				}
			}
		}
		// cold keys: written once at the beginning and then only read, so that every pass has live records to relocate
		// under the readers' feet
		hot := len(c.Cfg.Keys)
		ncold := rapid.IntRange(1, 3).Draw(t, "ncold")
		for i := 0; i < ncold; i++ {
			c.Cfg.Keys = append(c.Cfg.Keys, []byte(fmt.Sprintf("cold-key-%d", i)))
		}
		var prologue []c04Op
		for i := hot; i < len(c.Cfg.Keys); i++ {
			prologue = append(prologue, c04Op{Kind: "set", K: i, Size: rapid.SampledFrom([]int{0, 10, 200}).Draw(t, "coldsize")})
		}
		c.Clients[0] = append(prologue, c.Clients[0]...)
		for ci := range c.Clients {
			n := rapid.IntRange(1, 6).Draw(t, "coldreads")
			for j := 0; j < n; j++ {
				pos := rapid.IntRange(len(prologue)*btoi(ci == 0), len(c.Clients[ci])).Draw(t, "coldpos")
				op := c04Op{Kind: "get", K: rapid.IntRange(hot, len(c.Cfg.Keys)-1).Draw(t, "coldk")}
				c.Clients[ci] = append(c.Clients[ci][:pos], append([]c04Op{op}, c.Clients[ci][pos:]...)...)
			}
		}
		verifkit.SetCurrent("C05", "TestVerif_C05_Stress", c)
		hist, final, fv, err := c04Execute(c)
		if err != nil && isInfra(err) {
			t.Fatalf("%v", err)
		}
		var labels []string
		// a read that overlaps a pass may find that the record moved under it and answer a miss or a read error ("reader
		// tolerates a position that moved under it ... retry-as-miss"): such reads say nothing; wrong values, and anything
		// once no pass is active (the final reads, the reads after the restart), are judged as in C04
		transient := 0
		if err == nil {
			hist, transient = dropTransientReads(hist)
			labels, err = c04Check(c, hist, final, fv)
		}
		has := map[string]bool{}
		for _, l := range labels {
			has[l] = true
		}
		if transient > 0 {
			labels = append(labels, "transient_miss_or_error_during_pass")
		}
		if c.gcPasses > 0 {
			labels = append(labels, "gc_pass_during_run")
		}
		if c.gcPasses > 1 {
			labels = append(labels, "gc_passes>1")
		}
		if c.GC == 2 {
			labels = append(labels, "gc_merge")
		}
		if hooks.count("gc.rec.copied") > 0 {
			labels = append(labels, "gc_relocated_records")
		}
		if c.Reopen {
			labels = append(labels, "reopen")
		}
		nontrivial := err == nil && has["overlapping_writes"] && hooks.count("gc.rec.copied") > 0
		sample := map[string]interface{}{"cfg": c.Cfg, "clients": len(c.Clients), "schedule": c.Schedule, "ops_recorded": len(hist), "gc_passes": c.gcPasses}
		st.Case(labels, nontrivial, canon(c), sample)
		if err != nil {
			c.History, c.Final = hist, final
			verifkit.Fail("C05", "TestVerif_C05_Stress", c, err.Error())
			t.Fatalf("%v", err)
		}
	})
}

func init() {
	replayers["TestVerif_C05_Stress"] = func(raw json.RawMessage) error {
		c := &c04Case{}
		if err := json.Unmarshal(raw, c); err != nil {
			return err
		}
		if len(c.History) > 0 {
			h, _ := dropTransientReads(c.History)
			if _, err := c04Check(c, h, nil, nil); err != nil {
				return err
			}
		}
		for i := 0; i < 10; i++ {
			hist, final, fv, err := c04Execute(c)
			if err != nil {
				return err
			}
			hist, _ = dropTransientReads(hist)
			if _, err := c04Check(c, hist, final, fv); err != nil {
				return err
			}
		}
		return nil
	}
}

func btoi(b bool) int {
	if b {
		return 1
	}
	return 0
}

// dropTransientReads removes the reads that overlapped a GC pass and answered a miss or a read error.
func dropTransientReads(hist []c04Event) ([]c04Event, int) {
	kept := hist[:0:0]
	n := 0
	for _, ev := range hist {
		if ev.Kind == "get" && ev.InGC && (ev.Err != "" || (ev.Out == "" && ev.Ver == 0)) {
			n++
			continue
		}
		kept = append(kept, ev)
	}
	return kept, n
}
