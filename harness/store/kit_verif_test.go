package store

// Shared machinery of the store-level checks: per-case configuration of the
// package globals, hook control (parking / waiting), a quiet capturing log hub
// and open/close helpers.

import (
	"errors"
	"fmt"
	"io"
	"os"
	"path/filepath"
	"runtime"
	"sort"
	"strings"
	"sync"
	"sync/atomic"
	"time"

	"github.com/douban/gobeansdb/cmem"
	"github.com/douban/gobeansdb/config"
	"github.com/douban/gobeansdb/loghub"
	"github.com/douban/gobeansdb/verifhook"
	"github.com/douban/gobeansdb/verifkit"
)

// errInfra marks harness problems (timeouts while waiting for a hook, I/O errors of
// the harness itself). They are never reported as violations.
type errInfra struct{ msg string }

func (e *errInfra) Error() string { return "INFRA: " + e.msg }

func infraf(format string, a ...interface{}) error {
	return &errInfra{fmt.Sprintf(format, a...)}
}

// panicToError converts a recovered panic into an error: a violation if it was raised inside the
// repository's code, an infra error if it was raised by the harness itself.
func panicToError(e interface{}) error {
	pcs := make([]uintptr, 64)
	n := runtime.Callers(2, pcs)
	frames := runtime.CallersFrames(pcs[:n])
	var trace []string
	origin := ""
	pastPanic := false
	for {
		f, more := frames.Next()
		if f.Function == "runtime.gopanic" {
			pastPanic = true // frames before it belong to the deferred recover function
		}
		if f.Function != "" && !strings.HasPrefix(f.Function, "runtime.") {
			if origin == "" && pastPanic {
				origin = f.File
			}
			if len(trace) < 12 {
				trace = append(trace, fmt.Sprintf("%s:%d", filepath.Base(f.File), f.Line))
			}
		}
		if !more {
			break
		}
	}
	if fe, ok := e.(fatalExit); ok {
		return fmt.Errorf("server stops with FATAL %s [at %s]", fe.msg, strings.Join(trace, " < "))
	}
	msg := fmt.Sprintf("panic: %v [at %s]", e, strings.Join(trace, " < "))
	if strings.HasSuffix(origin, "_verif_test.go") || strings.Contains(origin, "/verifkit/") || strings.Contains(origin, "pgregory.net") {
		return &errInfra{msg}
	}
	return errors.New(msg)
}

func isInfra(err error) bool {
	var e *errInfra
	return errors.As(err, &e)
}

// ---------------------------------------------------------------------------
// configuration

// Cfg is the per-case configuration (JSON: part of replay files).
type Cfg struct {
	NumBucket     int      `json:"nb"`
	Served        []int    `json:"served,omitempty"` // nil = all buckets
	TreeHeight    int      `json:"th"`
	CheckVHash    bool     `json:"cvh,omitempty"`
	DataFileMax   int64    `json:"dfm"`
	SplitCap      int64    `json:"sc"`
	IndexInterval int64    `json:"ii"`
	BodyMax       int64    `json:"bm"`
	BodyInC       int64    `json:"bic"`
	BufIOCap      int      `json:"bio"`
	FlushInterval int      `json:"fi,omitempty"`
	TreeDump      int      `json:"td,omitempty"`
	NoMerged      bool     `json:"nomerged,omitempty"`
	Keys          [][]byte `json:"keys"`
	Groups        [][]int  `json:"groups,omitempty"` // groups of key indices forced onto one key hash
	ParkRotFlush  bool     `json:"park,omitempty"`   // park the post-rotation flush goroutine until released
	// NoGCDays: configured no_gc_days (used when a request passes a negative value). nil = "every file is old
	// enough" (-100000), which is what every check but C17 wants.
	NoGCDays *int `json:"nogcdays,omitempty"`
}

func (c *Cfg) depth() int {
	switch c.NumBucket {
	case 16:
		return 1
	case 256:
		return 2
	}
	return 0
}

func (c *Cfg) served(b int) bool {
	if c.Served == nil {
		return true
	}
	for _, s := range c.Served {
		if s == b {
			return true
		}
	}
	return false
}

// applyCfg installs the configuration into the package globals.
func applyCfg(c *Cfg, home string) {
	conf := &HStoreConfig{}
	conf.InitDefault()
	conf.Init()
	conf.Home = home
	conf.NumBucket = c.NumBucket
	conf.BucketsStat = make([]int, c.NumBucket)
	conf.BucketsHex = nil
	for i := 0; i < c.NumBucket; i++ {
		if c.served(i) {
			conf.BucketsStat[i] = 1
		}
	}
	conf.TreeHeight = c.TreeHeight
	conf.CheckVHash = c.CheckVHash
	conf.DataFileMax = c.DataFileMax
	conf.SplitCap = c.SplitCap
	conf.IndexIntervalSize = c.IndexInterval
	conf.BufIOCap = c.BufIOCap
	conf.FlushInterval = c.FlushInterval
	conf.NoGCDays = -100000 // every file is old enough (the age rule is C17's subject)
	if c.NoGCDays != nil {
		conf.NoGCDays = *c.NoGCDays
	}
	conf.MergeInterval = 1 << 20
	conf.NoMerged = c.NoMerged
	if c.TreeDump > 0 {
		conf.TreeDump = c.TreeDump
	}
	conf.NotCompress = map[string]bool{"audio/wave": true, "audio/mpeg": true}
	if err := conf.InitTree(); err != nil {
		panic(err)
	}
	Conf = conf

	mc := config.DefaultMCConfig
	mc.BodyMax = c.BodyMax
	mc.BodyBig = 1 << 20
	mc.BodyInC = c.BodyInC
	mc.FlushMax = 100 << 20
	mc.TimeoutMS = 1 << 30
	config.MCConf = mc

	SecsBeforeDump = -1
	if len(c.Groups) > 0 {
		tbl := map[string]uint64{}
		for _, g := range c.Groups {
			if len(g) == 0 {
				continue
			}
			h := getKeyHashDefalut(c.Keys[g[0]])
			for _, ki := range g {
				tbl[string(c.Keys[ki])] = h
			}
		}
		getKeyHash = func(key []byte) uint64 {
			if h, ok := tbl[string(key)]; ok {
				return h
			}
			return getKeyHashDefalut(key)
		}
	} else {
		getKeyHash = getKeyHashDefalut
	}
}

// ---------------------------------------------------------------------------
// logging: quiet, capturing; FATAL dumps the current case and exits 3.

type quietHub struct {
	mu     sync.Mutex
	errs   []string
	fatalF func(msg string)
}

func (h *quietHub) Log(name string, level int, file string, line int, msg string) {
	if level >= loghub.ERROR {
		h.mu.Lock()
		if len(h.errs) < 200 {
			h.errs = append(h.errs, fmt.Sprintf("%s:%d %s", file, line, msg))
		}
		h.mu.Unlock()
	}
	if level == loghub.FATAL {
		text := fmt.Sprintf("%s:%d %s", file, line, msg)
		if h.fatalF != nil {
			h.fatalF(text)
		}
		// The server would exit here. On the goroutine that runs the interpreter this is turned into a panic that
		// unwinds the store code (deferred unlocks run) and is reported as a failure of the case, so that rapid can
		// shrink it; on any other goroutine the process exits and the driver replays the saved current case.
		if goid() == atomic.LoadInt64(&driverGoid) {
			panic(fatalExit{text})
		}
		fmt.Fprintf(os.Stderr, "FATAL %s\n", text)
		os.Exit(3)
	}
}
func (h *quietHub) Reopen(path string) error           { return nil }
func (h *quietHub) GetLastLog() []byte                 { return nil }
func (h *quietHub) DumpBuffer(all bool, out io.Writer) {}
func (h *quietHub) takeErrors() []string {
	h.mu.Lock()
	defer h.mu.Unlock()
	e := h.errs
	h.errs = nil
	return e
}

var theHub = &quietHub{}

// fatalExit is the panic value used for logger.Fatalf on the interpreter goroutine.
type fatalExit struct{ msg string }

var driverGoid int64

func goid() int64 {
	var buf [64]byte
	n := runtime.Stack(buf[:], false)
	// "goroutine 123 [running]:"
	var id int64
	for _, c := range buf[len("goroutine "):n] {
		if c < '0' || c > '9' {
			break
		}
		id = id*10 + int64(c-'0')
	}
	return id
}

// markDriver records the calling goroutine as the interpreter goroutine.
func markDriver() { atomic.StoreInt64(&driverGoid, goid()) }

func installQuietLog() {
	loghub.ErrorLogger.Hub = theHub
	loghub.ErrorLogger.SetLevel(loghub.ERROR)
}

// ---------------------------------------------------------------------------
// hook control

type hookCtl struct {
	mu     sync.Mutex
	cond   *sync.Cond
	counts map[string]int

	parkRot  bool
	parked   []chan struct{} // parked post-rotation flush goroutines
	rotEnter int
	rotExit  int
	// pendingRot: rotated chunks whose flush goroutine (spawned at rotation) has not arrived yet, per (bucket, chunk);
	// countedRot: goroutines whose flush was counted as such (GC also flushes chunks by id: those calls are not counted)
	pendingRot map[[2]int]int
	countedRot map[int64]int
	extra      func(name string, args ...interface{}) // check-specific handler, called without the lock
	events     []string                               // optional event log
	logEvents  bool
	lastRotate int
}

var hooks = newHookCtl()
var traceHooks = os.Getenv("VERIF_TRACE") != ""

func newHookCtl() *hookCtl {
	h := &hookCtl{counts: map[string]int{}}
	h.cond = sync.NewCond(&h.mu)
	return h
}

func (h *hookCtl) reset(parkRot bool) {
	h.mu.Lock()
	h.counts = map[string]int{}
	h.parkRot = parkRot
	h.parked = nil
	h.rotEnter, h.rotExit = 0, 0
	h.pendingRot = map[[2]int]int{}
	h.countedRot = map[int64]int{}
	h.extra = nil
	h.events = nil
	h.logEvents = false
	h.mu.Unlock()
}

func (h *hookCtl) handle(name string, args ...interface{}) {
	if traceHooks && !strings.HasPrefix(name, "dc.") {
		fmt.Fprintln(os.Stderr, append([]interface{}{"HOOK", name}, args...)...)
		if name == "fs.rewrite.after" {
			if p, ok := args[0].(string); ok && strings.HasSuffix(p, "collision.yaml") {
				b, _ := os.ReadFile(p)
				fmt.Fprintf(os.Stderr, "---- %s\n%s----\n", p, b)
			}
		}
	}
	h.mu.Lock()
	if h.logEvents {
		h.events = append(h.events, fmt.Sprint(append([]interface{}{name}, args...)...))
	}
	var park chan struct{}
	switch name {
	case "ds.rotate":
		// AppendRecord spawns `go flush(newHead-1)` right after this point
		if h.pendingRot != nil {
			h.pendingRot[[2]int{args[0].(int), args[1].(int) - 1}]++
		}
	case "ds.flush.enter":
		// the goroutine spawned at rotation passes a chunk id (so do Bucket.close, on the interpreter goroutine, and GC
		// for each of its source files: only a flush of a chunk whose rotation flush is still outstanding counts)
		if chunk := args[1].(int); chunk >= 0 && goid() != atomic.LoadInt64(&driverGoid) {
			key := [2]int{args[0].(int), chunk}
			if h.pendingRot[key] > 0 {
				h.pendingRot[key]--
				h.countedRot[goid()]++
				h.rotEnter++
				if h.parkRot {
					park = make(chan struct{})
					h.parked = append(h.parked, park)
				}
			}
		}
	case "ds.flush.exit":
		if chunk := args[1].(int); chunk >= 0 && goid() != atomic.LoadInt64(&driverGoid) {
			if g := goid(); h.countedRot[g] > 0 {
				h.countedRot[g]--
				if h.countedRot[g] == 0 {
					delete(h.countedRot, g)
				}
				h.rotExit++
			}
		}
	}
	extra := h.extra
	h.mu.Unlock()
	if park != nil {
		<-park
	}
	if extra != nil {
		extra(name, args...)
	}
	// the event is counted only after the check-specific handler ran (e.g. after the directory image was copied):
	// whoever waits for the count must not race with the handler
	h.mu.Lock()
	h.counts[name]++
	h.cond.Broadcast()
	h.mu.Unlock()
}

func (h *hookCtl) count(name string) int {
	h.mu.Lock()
	defer h.mu.Unlock()
	return h.counts[name]
}

// waitFor waits until pred (evaluated under the lock) holds; bounded, returns an infra error on timeout.
func (h *hookCtl) waitFor(what string, pred func() bool) error {
	deadline := time.Now().Add(20 * time.Second)
	h.mu.Lock()
	defer h.mu.Unlock()
	for !pred() {
		if time.Now().After(deadline) {
			return infraf("timeout waiting for %s (counts %v)", what, h.counts)
		}
		// cond.Wait has no timeout: poll with a short sleep outside the lock
		h.mu.Unlock()
		time.Sleep(200 * time.Microsecond)
		h.mu.Lock()
	}
	return nil
}

// numParked returns how many rotation flushes are parked.
func (h *hookCtl) numParked() int {
	h.mu.Lock()
	defer h.mu.Unlock()
	return len(h.parked)
}

// releaseRotFlush releases all parked post-rotation flush goroutines and waits until every
// rotation flush that was spawned has finished.
func (h *hookCtl) releaseRotFlush() error {
	// every rotation spawns exactly one goroutine: wait until all of them have arrived
	if err := h.waitFor("rotation flush goroutines to start", func() bool { return h.rotEnter >= h.counts["ds.rotate"] }); err != nil {
		return err
	}
	h.mu.Lock()
	p := h.parked
	h.parked = nil
	h.mu.Unlock()
	for _, c := range p {
		close(c)
	}
	return h.waitFor("rotation flush goroutines to finish", func() bool { return h.rotExit >= h.rotEnter })
}

func init() {
	verifhook.Set(hooks.handle)
	installQuietLog()
}

// ---------------------------------------------------------------------------
// store life cycle helpers

var caseSeq int64

// newHome creates a fresh database home for one case.
func newHome() string {
	n := atomic.AddInt64(&caseSeq, 1)
	d := filepath.Join(verifkit.WorkDir(), fmt.Sprintf("c%d-%d", os.Getpid(), n)) // fuzz workers are separate processes sharing one work directory
	os.RemoveAll(d)
	os.MkdirAll(d, 0755)
	return d
}

// openStore opens the store for the installed configuration and waits until the
// background hint check of every opened bucket is done.
func openStore(c *Cfg) (*HStore, error) {
	before := hooks.count("bkt.open.bgdone")
	s, err := NewHStore()
	if err != nil {
		return nil, err
	}
	n := 0
	for i := 0; i < c.NumBucket; i++ {
		if c.served(i) {
			n++
		}
	}
	if e := hooks.waitFor("bkt.open.bgdone", func() bool { return hooks.counts["bkt.open.bgdone"] >= before+n }); e != nil {
		return nil, e
	}
	return s, nil
}

// closeStore closes the store (graceful shutdown).
func closeStore(s *HStore) {
	s.Close()
}

// discardStore frees the C memory of a store that is thrown away.
func discardStore(s *HStore) {
	if s == nil {
		return
	}
	for _, b := range s.buckets {
		if b.htree != nil {
			b.htree.release()
			b.htree = nil
		}
	}
}

// indexFiles lists the derived index files under home (relative paths, sorted).
func indexFiles(home string) []string {
	var out []string
	filepath.Walk(home, func(p string, info os.FileInfo, err error) error {
		if err != nil || info.IsDir() {
			return nil
		}
		n := info.Name()
		if strings.HasSuffix(n, ".idx.hash") || strings.HasSuffix(n, ".idx.s") || strings.HasSuffix(n, ".idx.m") {
			rel, _ := filepath.Rel(home, p)
			out = append(out, rel)
		}
		return nil
	})
	sort.Strings(out)
	return out
}

// newPayload builds a payload the way the protocol layer does (buffer accounting included).
func newPayload(val []byte, flag uint32, ver int32, ts uint32) *Payload {
	p := &Payload{}
	p.Flag = flag
	p.Ver = ver
	p.TS = ts
	if !p.CArray.Alloc(len(val)) {
		panic("alloc failed")
	}
	copy(p.Body, val)
	cmem.DBRL.SetData.AddSizeAndCount(p.CArray.Cap)
	return p
}

func newDeletePayload(ts uint32) *Payload {
	p := &Payload{}
	p.Ver = -1
	p.TS = ts
	return p
}

func freePayload(p *Payload) {
	if p != nil {
		cmem.DBRL.GetData.SubSizeAndCount(p.CArray.Cap)
		p.CArray.Free()
	}
}

func newKI(key []byte) *KeyInfo {
	return &KeyInfo{Key: key, StringKey: string(key)}
}

func thorough() bool { return verifkit.Thorough() }

var osReadFile = os.ReadFile

var sprintf = fmt.Sprintf
