package store

import (
	"fmt"
	"testing"

	"github.com/douban/gobeansdb/verifkit"
)

// C08 (store level): HStore.ListDir after arbitrary histories (restart with tree dump loaded or rebuilt, GC)
// equals the recomputation from the reference model, at bucket level and above.

func c08ListingCheck(r *histRunner, where string) error {
	if err := r.sweep(where + ": sweep before listing"); err != nil {
		return err
	}
	cfg := &r.h.Cfg
	depth := cfg.depth()
	type bucketRef struct {
		rt   *refTree
		tomb map[uint64]bool
	}
	refs := map[int]*bucketRef{}
	for b := 0; b < cfg.NumBucket; b++ {
		if cfg.served(b) {
			refs[b] = &bucketRef{rt: &refTree{Depth: depth, Height: cfg.TreeHeight, Items: map[uint64]refItem{}}, tomb: map[uint64]bool{}}
		}
	}
	for k, m := range r.model {
		key := cfg.Keys[k]
		h := getKeyHash(key)
		ki := newKI(key)
		ki.KeyHash = h
		ki.Prepare()
		br := refs[ki.BucketID]
		if br == nil {
			continue
		}
		switch m.State {
		case stLive:
			if len(m.Vers) != 1 {
				return infraf("version of %q not narrowed: %v", key, m.Vers)
			}
			br.rt.Items[h] = refItem{Ver: m.Vers[0], Vhash: verifkit.Vhash(m.Val)}
		case stDeleted:
			br.tomb[h] = true
		}
	}
	list := func(prefix []int) ([]byte, error) {
		s := prefixString(prefix)
		ki := &KeyInfo{StringKey: s, Key: []byte(s), KeyIsPath: true}
		return r.store.ListDir(ki)
	}
	// bucket level and below
	for b, br := range refs {
		bp := []int{}
		for i := depth - 1; i >= 0; i-- {
			bp = append(bp, (b>>uint(4*i))&0xf)
		}
		prefixes := [][]int{bp}
		n := 0
		for h := range br.rt.Items {
			if n >= 6 {
				break
			}
			n++
			full := make([]int, 16)
			for i := range full {
				full[i] = hexDigit(h, i)
			}
			for l := depth + 1; l <= 16; l++ {
				prefixes = append(prefixes, full[:l])
			}
		}
		for _, p := range prefixes {
			got, err := list(p)
			if err != nil {
				return fmt.Errorf("%s: ListDir(%q): %v", where, prefixString(p), err)
			}
			if err := compareListing(br.rt, p, got, br.tomb); err != nil {
				return fmt.Errorf("%s: bucket %x: %v", where, b, err)
			}
		}
		r.label("listed_bucket")
	}
	// above bucket level: aggregate of the roots of the served buckets (x97 fold, unconditionally)
	if depth > 0 {
		var upper func(prefix []int) (uint16, uint32)
		upper = func(prefix []int) (uint16, uint32) {
			if len(prefix) == depth {
				b := 0
				for _, d := range prefix {
					b = b<<4 | d
				}
				br := refs[b]
				if br == nil {
					return 0, 0
				}
				return br.rt.NodeHash(prefix), br.rt.Count(prefix)
			}
			var hash uint16
			var cnt uint32
			for i := 0; i < 16; i++ {
				ch, cc := upper(append(append([]int{}, prefix...), i))
				hash = hash*97 + ch
				cnt += cc
			}
			return hash, cnt
		}
		ups := [][]int{{}}
		if depth == 2 {
			for i := 0; i < 16; i += 5 {
				ups = append(ups, []int{i})
			}
		}
		for _, p := range ups {
			got, err := list(p)
			if err != nil {
				return fmt.Errorf("%s: upper ListDir(%q): %v", where, prefixString(p), err)
			}
			want := ""
			for i := 0; i < 16; i++ {
				h, c := upper(append(append([]int{}, p...), i))
				want += fmt.Sprintf("%x/ %d %d\n", i, h, int(c))
			}
			if string(got) != want {
				return fmt.Errorf("%s: upper listing of %q differs from the aggregate of the served bucket roots:\ngot  %q\nwant %q", where, prefixString(p), got, want)
			}
		}
		r.label("listed_upper")
	}
	return nil
}

var c08Store = &histCheck{
	property: "C08",
	name:     "TestVerif_C08_Store",
	profile: func() *genProfile {
		p := &genProfile{minOps: 4, maxOps: 50, reopen: true, gc: true, tinyFiles: true, maxKeys: 24}
		if thorough() {
			p.maxOps = 100
		}
		return p
	},
	opts: func() runOpts {
		return runOpts{onStep: func(r *histRunner, i int, op *Op) error {
			switch op.Kind {
			case "reopen", "gc":
				r.listedAfter++
				return c08ListingCheck(r, "after "+op.Kind)
			}
			if i == len(r.h.Ops)-1 {
				return c08ListingCheck(r, "at the end")
			}
			return nil
		}}
	},
	nontrivial: func(r *histRunner) bool { return r.listedAfter > 0 && r.labels["listed_bucket"] },
}

func TestVerif_C08_Store(t *testing.T) { c08Store.check(t) }

func init() { c08Store.register() }
