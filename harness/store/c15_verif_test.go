package store

import (
	"fmt"
	"os"
	"path/filepath"
	"strconv"
	"strings"
	"testing"

	"github.com/douban/gobeansdb/verifkit"
	"pgregory.net/rapid"
)

// C15: keys are routed to exactly one bucket by the top hash digits.

func refBucket(key []byte, depth int) int {
	h := verifkit.KeyHash(key)
	if depth == 0 {
		return 0
	}
	return int(h >> uint(64-4*depth))
}

// c15CfgHook draws the served subset (none / one / some / all) and builds keys that hash into served and
// unserved buckets (found by search with the reference hash: construction, not rejection).
func c15CfgHook(t *rapid.T, c *Cfg) {
	depth := c.depth()
	nb := c.NumBucket
	if nb > 1 {
		pattern := rapid.SampledFrom([]string{"some", "some", "one", "none", "all", "some"}).Draw(t, "served_pattern")
		if pattern == "all" && nb == 256 && rapid.IntRange(0, 9).Draw(t, "all256") != 0 {
			pattern = "some"
		}
		switch pattern {
		case "all":
			c.Served = nil
		case "none":
			c.Served = []int{}
		case "one":
			c.Served = []int{rapid.IntRange(0, nb-1).Draw(t, "served")}
		default:
			n := rapid.IntRange(2, 6).Draw(t, "nserved")
			seen := map[int]bool{}
			c.Served = []int{}
			for i := 0; i < n; i++ {
				b := rapid.IntRange(0, nb-1).Draw(t, "served")
				if !seen[b] {
					seen[b] = true
					c.Served = append(c.Served, b)
				}
			}
		}
	}
	// target buckets: the served ones (up to 6) plus 1..3 others
	var targets []int
	if c.Served == nil {
		for i := 0; i < 4; i++ {
			targets = append(targets, rapid.IntRange(0, nb-1).Draw(t, "target"))
		}
	} else {
		targets = append(targets, c.Served...)
		for i := 0; i < rapid.IntRange(1, 3).Draw(t, "nunserved"); i++ {
			targets = append(targets, rapid.IntRange(0, nb-1).Draw(t, "target"))
		}
	}
	keys := [][]byte{}
	seenKey := map[string]bool{}
	stem := string(genKey(t, "stem."))
	if len(stem) > 200 {
		stem = stem[:200]
	}
	for _, b := range targets {
		per := rapid.IntRange(1, 3).Draw(t, "perbucket")
		found := 0
		for n := 0; found < per && n < 200000; n++ {
			k := []byte(stem + ":" + strconv.Itoa(n))
			if refBucket(k, depth) == b && !seenKey[string(k)] {
				seenKey[string(k)] = true
				keys = append(keys, k)
				found++
			}
		}
	}
	// a few keys wherever they fall
	for i := 0; i < 4; i++ {
		k := genKey(t, fmt.Sprintf("free%d.", i))
		if !seenKey[string(k)] {
			seenKey[string(k)] = true
			keys = append(keys, k)
		}
	}
	c.Keys = keys
	c.Groups = nil
}

// c15RoutingCheck inspects the directory tree with the independent scanner.
func c15RoutingCheck(r *histRunner) error {
	cfg := &r.h.Cfg
	depth := cfg.depth()
	if err := hooks.releaseRotFlush(); err != nil {
		return err
	}
	r.store.flushdatas(true)
	found := map[string]int{} // key -> bucket whose directory holds a record of it
	err := filepath.Walk(r.home, func(p string, info os.FileInfo, err error) error {
		if err != nil || info.IsDir() || !strings.HasSuffix(p, ".data") {
			return nil
		}
		rel, _ := filepath.Rel(r.home, filepath.Dir(p))
		b := 0
		switch cfg.NumBucket {
		case 1:
			if rel != "." {
				return fmt.Errorf("data file %s outside the single bucket's home", p)
			}
		case 16:
			v, e := strconv.ParseInt(rel, 16, 32)
			if e != nil || len(rel) != 1 {
				return fmt.Errorf("data file in unexpected directory %q", rel)
			}
			b = int(v)
		case 256:
			parts := strings.Split(rel, string(filepath.Separator))
			if len(parts) != 2 || len(parts[0]) != 1 || len(parts[1]) != 1 {
				return fmt.Errorf("data file in unexpected directory %q", rel)
			}
			hi, e1 := strconv.ParseInt(parts[0], 16, 32)
			lo, e2 := strconv.ParseInt(parts[1], 16, 32)
			if e1 != nil || e2 != nil {
				return fmt.Errorf("data file in unexpected directory %q", rel)
			}
			b = int(hi*16 + lo)
		}
		if !cfg.served(b) {
			return fmt.Errorf("data file %s in the directory of bucket %x which this server does not serve", p, b)
		}
		recs, _, _ := verifkit.ScanFile(p, 250, cfg.BodyMax+500)
		for _, rc := range recs {
			want := refBucket(rc.Key, depth)
			if want != b {
				return fmt.Errorf("record of key %q (reference hash %016x -> bucket %x) found in the directory of bucket %x", rc.Key, verifkit.KeyHash(rc.Key), want, b)
			}
			found[string(rc.Key)] = b
		}
		return nil
	})
	if err != nil {
		return err
	}
	servedHit, unservedHit := map[int]bool{}, map[int]bool{}
	for k, m := range r.model {
		key := cfg.Keys[k]
		b := refBucket(key, depth)
		ki := newKI(key)
		ki.KeyHash = getKeyHash(key)
		ki.Prepare()
		if ki.BucketID != b {
			return fmt.Errorf("key %q: store routes to bucket %x, reference hash %016x says %x", key, ki.BucketID, verifkit.KeyHash(key), b)
		}
		_, onDisk := found[string(key)]
		if cfg.served(b) {
			if m.State != stAbsent {
				servedHit[b] = true
				if !onDisk {
					return fmt.Errorf("key %q was written (bucket %x is served) but no record of it is in that bucket's directory", key, b)
				}
			}
		} else {
			if r.wroteUnserved[k] {
				unservedHit[b] = true
			}
			if onDisk {
				return fmt.Errorf("key %q belongs to unserved bucket %x but a record of it was stored", key, b)
			}
		}
	}
	if len(servedHit) >= 2 {
		r.label("routed>=2_served")
	}
	if len(unservedHit) >= 1 {
		r.label("routed_unserved")
	}
	return nil
}

var c15Routing = &histCheck{
	property: "C15",
	name:     "TestVerif_C15_Routing",
	profile: func() *genProfile {
		f := false
		return &genProfile{minOps: 6, maxOps: 40, buckets: []int{16, 16, 256, 256, 16, 1}, maxHeight: 3, checkVHash: &f, cfgHook: c15CfgHook,
			kinds: []string{"set", "set", "set", "set", "set", "get", "get", "delete", "flush", "incr"}, noExplicit: true}
	},
	opts: func() runOpts {
		return runOpts{onStep: func(r *histRunner, i int, op *Op) error {
			if i != len(r.h.Ops)-1 {
				return nil
			}
			if err := c15RoutingCheck(r); err != nil {
				return err
			}
			return c08ListingCheck(r, "routing")
		}}
	},
	nontrivial: func(r *histRunner) bool { return r.labels["routed>=2_served"] && r.labels["routed_unserved"] },
}

func TestVerif_C15_Routing(t *testing.T) { c15Routing.check(t) }

func init() { c15Routing.register() }
