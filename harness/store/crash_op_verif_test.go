package store

// "crash" op: the process is killed at an operation boundary (SIGKILL model: what reached the files stays, write buffers,
// hint buffers and the tree are lost, a post-rotation flush that has not run yet never runs) and restarted on what is
// on disk; the history then CONTINUES on the recovered store. The reference model is re-synchronised from the
// independent scanner (per key: the newest complete record in the data files), which is exactly what C06 allows a
// recovered store to serve. Chains of kills (kill, restart, more writes, kill again) are reached this way; the images
// taken by the C06 snapshotter during the later phases are judged by the same image oracle as before.

import (
	"fmt"
	"os"

	"github.com/douban/gobeansdb/verifkit"
)

func (r *histRunner) doCrash(op *Op) error {
	// no file-system mutation may be in flight while the image is copied: rotation flushes that were not parked finish first
	if err := hooks.waitFor("rotation flush goroutines to start", func() bool { return hooks.rotEnter >= hooks.counts["ds.rotate"] }); err != nil {
		return err
	}
	if err := hooks.waitFor("running rotation flushes to finish", func() bool { return hooks.rotExit >= hooks.rotEnter-len(hooks.parked) }); err != nil {
		return err
	}
	if hooks.numParked() > 0 {
		r.label("crash_with_unflushed_rotated_file")
	}
	img := r.home + "-img"
	os.RemoveAll(img)
	if err := verifkit.CopyDir(r.home, img); err != nil {
		return infraf("copy image: %v", err)
	}
	// the abandoned instance: let its parked goroutines end (they write into the old directory, which is thrown away)
	if err := hooks.releaseRotFlush(); err != nil {
		return err
	}
	discardStore(r.store)
	r.store = nil
	os.RemoveAll(r.home)
	if err := os.Rename(img, r.home); err != nil {
		return infraf("rename image: %v", err)
	}
	dur, torn, err := durableState(&r.h.Cfg, r.home)
	if err != nil {
		return infraf("scan image: %v", err)
	}
	if torn {
		return infraf("image taken at an operation boundary ends in a partial record")
	}
	lost := 0
	for k, key := range r.h.Cfg.Keys {
		if r.h.Cfg.NumBucket > 1 && !r.h.Cfg.served(refBucketOf(key, r.h.Cfg.depth())) {
			continue
		}
		m := r.model[k]
		d := dur[string(key)]
		switch {
		case !d.found:
			if m.State != stAbsent {
				lost++
			}
			*m = mkey{State: stAbsent, Writes: m.Writes}
		case d.rec.Ver < 0:
			if m.State != stDeleted || !m.has(-d.rec.Ver) {
				lost++
			}
			*m = mkey{State: stDeleted, Vers: []int32{-d.rec.Ver, 0}, DataVer: -d.rec.Ver, Writes: m.Writes}
		default:
			val, err := storedValue(&d.rec)
			if err != nil {
				return infraf("decompress durable record: %v", err)
			}
			if m.State != stLive || !m.has(d.rec.Ver) {
				lost++
			}
			*m = mkey{State: stLive, Val: val, Flag: d.rec.Flag &^ FLAG_COMPRESS, Vers: []int32{d.rec.Ver}, DataVer: d.rec.Ver, Writes: m.Writes}
		}
	}
	if lost > 0 {
		r.label("crash_lost_unflushed_writes")
	}
	s, err := openStore(&r.h.Cfg)
	if err != nil {
		if isInfra(err) {
			return err
		}
		return fmt.Errorf("restart after a kill at an operation boundary failed (no data file ends in a partial record): %v", err)
	}
	r.store = s
	r.crashes++
	r.label("crash")
	if r.crashes >= 2 {
		r.label("crash_twice")
	}
	return nil
}
