package store

import "testing"

// C01: single-client model equivalence at the HStore API level.
var c01API = &histCheck{
	property: "C01",
	name:     "TestVerif_C01_API",
	profile: func() *genProfile {
		p := &genProfile{minOps: 1, maxOps: 60, park: true}
		if thorough() {
			p.maxOps = 200
		}
		return p
	},
	opts: func() runOpts { return runOpts{noCloseAtEnd: true} },
	nontrivial: func(r *histRunner) bool {
		// an overwritten/deleted key was read back from at least two different residences
		n := 0
		for _, c := range r.reads {
			if c > 0 {
				n++
			}
		}
		return (r.labels["overwrite"] || r.labels["delete"]) && n >= 2
	},
}

func TestVerif_C01_API(t *testing.T) { c01API.check(t) }

func init() { c01API.register() }
