package store

// Native fuzz targets (thorough tier only): the same oracles as the rapid checks, driven by coverage-guided
// mutation of raw bytes. A failing input is written as a replay file of the corresponding check.

import (
	"bytes"
	"encoding/json"
	"os"
	"path/filepath"
	"testing"

	"github.com/douban/gobeansdb/cmem"
	"github.com/douban/gobeansdb/config"
	"github.com/douban/gobeansdb/verifkit"
)

type rawCase struct {
	Data []byte `json:"data"`
}

// c09ScanRaw: arbitrary bytes as a data file: the sequential scan terminates, never panics, and every record it
// yields re-verifies under the independent decoder at the reported offset.
func c09ScanRaw(data []byte) (err error) {
	defer func() {
		if e := recover(); e != nil {
			err = panicToError(e)
		}
	}()
	if len(data) > 1<<20 {
		data = data[:1<<20]
	}
	dir := newHome()
	defer os.RemoveAll(dir)
	mc := config.DefaultMCConfig
	mc.BodyMax = 4096
	mc.BodyInC = 64
	config.MCConf = mc
	cmem.DBRL.ResetAll()
	path := filepath.Join(dir, "000.data")
	if err := os.WriteFile(path, data, 0644); err != nil {
		return infraf("%v", err)
	}
	r, e := newDataStreamReader(path, 4096)
	if e != nil {
		return infraf("%v", e)
	}
	defer r.Close()
	for n := 0; ; n++ {
		if n > len(data)/24+16 {
			return errf("sequential scan of %d bytes does not terminate (%d records)", len(data), n)
		}
		rec, off, _, e := r.Next()
		if e != nil || rec == nil {
			break
		}
		want, ok := verifkit.DecodeAt(data, off, 250, 4096)
		if !ok {
			return errf("scan yielded a record at offset %d (key %q) that the independent decoder rejects", off, rec.Key)
		}
		p := rec.Payload
		if !bytes.Equal(want.Key, rec.Key) || !bytes.Equal(want.Body, p.Body) || want.Flag != p.Flag || want.Ver != p.Ver || want.TS != p.TS {
			return errf("scan yielded other content than the independent decoder at offset %d", off)
		}
		if p.CArray.Addr != 0 || p.CArray.Cap != 0 {
			cmem.DBRL.GetData.SubSizeAndCount(p.CArray.Cap)
			p.CArray.Free()
		}
		// positional read agrees
		w, e := readRecordAtPath(path, off)
		if e != nil {
			return errf("positional read at %d fails (%v) for a record the scan yielded", off, e)
		}
		cmem.DBRL.GetData.SubSizeAndCount(w.rec.Payload.CArray.Cap)
		w.rec.Payload.CArray.Free()
	}
	// and everything the independent scanner finds at a position the store's positional reader is asked for is readable
	for _, rc := range verifkit.ScanBytes(data, 250, 4096) {
		w, e := readRecordAtPath(path, rc.Offset)
		if e != nil {
			return errf("positional read of a CRC-valid record at %d fails: %v", rc.Offset, e)
		}
		if !bytes.Equal(w.rec.Key, rc.Key) || !bytes.Equal(w.rec.Payload.Body, rc.Body) {
			return errf("positional read at %d returns other content than the independent decoder", rc.Offset)
		}
		cmem.DBRL.GetData.SubSizeAndCount(w.rec.Payload.CArray.Cap)
		w.rec.Payload.CArray.Free()
	}
	return nil
}

type simpleErr string

func (e simpleErr) Error() string { return string(e) }
func errf(format string, a ...interface{}) error {
	return simpleErr(sprintf(format, a...))
}

func FuzzVerif_C09_Scan(f *testing.F) {
	st := verifkit.StatsFor("FuzzVerif_C09_Scan")
	f.Add([]byte{})
	f.Add(verifkit.EncodeRecord(1, 2, 3, []byte("key"), []byte("value")))
	two := append(verifkit.EncodeRecord(1, 0, 1, []byte("a"), bytes.Repeat([]byte("x"), 300)), verifkit.EncodeRecord(9, 0x10, -2, []byte("bb"), nil)...)
	f.Add(two)
	bad := append([]byte{}, two...)
	bad[20] = 0xff
	f.Add(bad)
	f.Fuzz(func(t *testing.T, data []byte) {
		err := c09ScanRaw(data)
		if err != nil && isInfra(err) {
			t.Skip(err.Error())
		}
		nt := len(verifkit.ScanBytes(data, 250, 4096)) > 0
		st.Case([]string{"fuzz_input"}, nt, data, map[string]interface{}{"len": len(data), "head": data[:minInt(len(data), 32)]})
		if err != nil {
			verifkit.Fail("C09", "FuzzVerif_C09_Scan", &rawCase{Data: data}, err.Error())
			t.Fatalf("%v", err)
		}
	})
}

func FuzzVerif_C16_Hashes(f *testing.F) {
	st := verifkit.StatsFor("FuzzVerif_C16_Hashes")
	f.Add([]byte{})
	f.Add([]byte("abc"))
	f.Add(bytes.Repeat([]byte{0x80, 0xff, 'a'}, 400))
	f.Fuzz(func(t *testing.T, data []byte) {
		if len(data) > 1<<20 {
			data = data[:1<<20]
		}
		c := &c16Case{Data: data}
		if len(data) > 2 {
			c.Splits = []int{1, len(data) / 2}
		}
		err := c16Run(c)
		hi := false
		for _, b := range data {
			if b >= 0x80 {
				hi = true
				break
			}
		}
		st.Case([]string{"fuzz_input"}, hi || len(data) > 1024, data, map[string]interface{}{"len": len(data), "head": data[:minInt(len(data), 32)]})
		if err != nil {
			verifkit.Fail("C16", "TestVerif_C16_Hashes", c, err.Error())
			t.Fatalf("%v", err)
		}
	})
}

func minInt(a, b int) int {
	if a < b {
		return a
	}
	return b
}

func init() {
	replayers["FuzzVerif_C09_Scan"] = func(raw json.RawMessage) error {
		c := &rawCase{}
		if err := json.Unmarshal(raw, c); err != nil {
			return err
		}
		return c09ScanRaw(c.Data)
	}
}
