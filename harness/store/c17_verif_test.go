package store

import (
	"bytes"
	"encoding/binary"
	"fmt"
	"os"
	"path/filepath"
	"sort"
	"strings"
	"sync"
	"testing"
	"time"

	"pgregory.net/rapid"
)

// C17: a GC request only touches eligible files and at most one pass runs per bucket.

type passTracker struct {
	mu      sync.Mutex
	active  int
	overlap bool
	enters  int
	exits   int
	fsEvts  []string
	parkCh  chan struct{} // first request parks here (between the already-running check and the spawn)
	parked  chan struct{}
	parkOn  bool
	// holdPass: the next pass that starts is held at its very beginning until holdCh is closed (so that the verdict on the
	// parked first request does not depend on how fast the second request's pass runs)
	holdPass bool
	holdCh   chan struct{}
}

func (p *passTracker) handle(name string, args ...interface{}) {
	switch name {
	case "gc.pass.enter":
		p.mu.Lock()
		p.active++
		p.enters++
		if p.active > 1 {
			p.overlap = true
		}
		hold := p.holdPass
		p.holdPass = false
		p.mu.Unlock()
		if hold {
			<-p.holdCh
		}
	case "gc.pass.exit":
		p.mu.Lock()
		p.active--
		p.exits++
		p.mu.Unlock()
	case "gc.request.checked":
		p.mu.Lock()
		park := p.parkOn
		p.parkOn = false
		p.mu.Unlock()
		if park {
			close(p.parked)
			<-p.parkCh
		}
	default:
		if strings.HasPrefix(name, "fs.") {
			p.mu.Lock()
			if len(p.fsEvts) < 50 {
				p.fsEvts = append(p.fsEvts, fmt.Sprint(append([]interface{}{name}, args...)...))
			}
			p.mu.Unlock()
		}
	}
}

func readDataFiles(home string) map[int][]byte {
	out := map[int][]byte{}
	paths, _ := filepath.Glob(filepath.Join(home, "*.data"))
	for _, p := range paths {
		var id int
		fmt.Sscanf(filepath.Base(p), "%03d.data", &id)
		b, _ := os.ReadFile(p)
		out[id] = b
	}
	return out
}

func (r *histRunner) doGCRequest(op *Op) error {
	if err := hooks.releaseRotFlush(); err != nil {
		return err
	}
	served := []int{}
	for i, b := range r.store.buckets {
		if b.State == BUCKET_STAT_READY {
			served = append(served, i)
		}
	}
	if len(served) == 0 {
		return nil
	}
	bid := served[op.Bucket%len(served)]
	bkt := r.store.buckets[bid]
	if op.Force {
		r.store.flushdatas(true) // otherwise the head (and only the head) may hold unflushed records
	}
	head := bkt.datas.newHead
	before := readDataFiles(bkt.Home)
	nextGC := bkt.NextGCChunk
	pt := &passTracker{parkCh: make(chan struct{}), parked: make(chan struct{}), holdCh: make(chan struct{})}
	hooks.mu.Lock()
	prev := hooks.extra
	hooks.extra = pt.handle
	hooks.mu.Unlock()
	defer func() {
		hooks.mu.Lock()
		hooks.extra = prev
		hooks.mu.Unlock()
	}()
	days := op.NoGCDays
	effDays := days
	if effDays < 0 {
		effDays = Conf.NoGCDays
	}
	now := time.Now().Unix()

	type reply struct {
		begin, end int
		err        error
	}
	var first, second reply
	secondIssued := false
	switch op.Double {
	case "parked":
		pt.parkOn = true
		done := make(chan struct{})
		go func() {
			defer close(done)
			first.begin, first.end, first.err = r.store.GC(bid, op.Begin, op.End, days, op.Merge, op.Pretend)
		}()
		select {
		case <-pt.parked:
			// the first request has passed the already-running check and is about to start its pass; the second request's
			// pass is held at its very beginning, so it is "in progress" when the first request resumes
			pt.mu.Lock()
			pt.holdPass = true
			pt.mu.Unlock()
			second.begin, second.end, second.err = r.store.GC(bid, op.Begin, op.End, days, op.Merge, op.Pretend)
			secondIssued = true
			if second.err == nil && !op.Pretend {
				if e := r.waitEntered(pt); e != nil {
					close(pt.holdCh)
					close(pt.parkCh)
					return e
				}
			}
			close(pt.parkCh)
			<-done
			r.label("double_request_parked")
			bothAccepted := first.err == nil && second.err == nil && !op.Pretend
			if bothAccepted {
				// give the wrongly accepted pass the chance to show up as an overlap, then let everything finish
				time.Sleep(2 * time.Millisecond)
			}
			close(pt.holdCh)
			if bothAccepted {
				r.waitPasses(pt)
				return fmt.Errorf("two GC requests for bucket %d were both accepted while the pass of one of them was in progress (ranges [%d,%d] and [%d,%d]); passes started: %d, overlapped: %v",
					bid, first.begin, first.end, second.begin, second.end, pt.enters, pt.overlap)
			}
		case <-done: // rejected before reaching the spawn (or pretend)
		}
	case "cancelled":
		// the first pass is held at its very beginning, the operator cancels it and asks again at once: the cancelled pass
		// is still in progress (it only looks at the flag between files), so the new request must be refused
		pt.mu.Lock()
		pt.holdPass = true
		pt.mu.Unlock()
		first.begin, first.end, first.err = r.store.GC(bid, op.Begin, op.End, days, op.Merge, op.Pretend)
		if first.err == nil && !op.Pretend {
			if e := r.waitEntered(pt); e != nil {
				close(pt.holdCh)
				return e
			}
			r.store.CancelGC(bid)
			second.begin, second.end, second.err = r.store.GC(bid, op.Begin, op.End, days, op.Merge, op.Pretend)
			secondIssued = true
			r.label("request_after_cancel")
			accepted := second.err == nil
			if accepted {
				time.Sleep(2 * time.Millisecond)
			}
			close(pt.holdCh)
			if accepted {
				r.waitPasses(pt)
				return fmt.Errorf("a GC request for bucket %d was accepted while the pass of the previous request, cancelled a moment before, was still in progress (passes started: %d, overlapped: %v)", bid, pt.enters, pt.overlap)
			}
		} else {
			pt.mu.Lock()
			pt.holdPass = false
			pt.mu.Unlock()
			close(pt.holdCh)
		}
	case "backtoback":
		first.begin, first.end, first.err = r.store.GC(bid, op.Begin, op.End, days, op.Merge, op.Pretend)
		second.begin, second.end, second.err = r.store.GC(bid, op.Begin, op.End, days, op.Merge, op.Pretend)
		secondIssued = true
		r.label("double_request_backtoback")
		if first.err == nil && second.err == nil && !op.Pretend {
			r.waitPasses(pt)
			if pt.overlap {
				return fmt.Errorf("two back-to-back GC requests for bucket %d were both accepted and their passes overlapped", bid)
			}
			// both accepted but the first pass had already finished: legal
		}
	default:
		first.begin, first.end, first.err = r.store.GC(bid, op.Begin, op.End, days, op.Merge, op.Pretend)
	}
	if err := r.waitPasses(pt); err != nil {
		return err
	}
	if pt.overlap {
		return fmt.Errorf("two GC passes ran on bucket %d at the same time", bid)
	}
	if secondIssued && first.err != nil && second.err == nil {
		first = second // the request that was accepted (the other one was refused: already running)
	}
	if secondIssued && op.Double == "backtoback" && first.err == nil && second.err == nil {
		// two passes one after the other (the first had finished): the inventory checks below cover their union only
		// in terms of the first request's range; both requests carry the same arguments
		r.label("two_sequential_passes")
	}
	after := readDataFiles(bkt.Home)

	// ---- reference resolution of the range on the layout (only the unambiguous parts are asserted)
	nonEmpty := func(id int) bool { return len(before[id]) > 0 }
	refStart := op.Begin
	if refStart < 0 {
		refStart = nextGC
	}
	refErr := false
	if op.Begin > head {
		refErr = true
	}
	for refStart < head && !nonEmpty(refStart) {
		refStart++
	}
	if first.err == nil {
		r.label("gc_request_accepted")
		if refErr {
			return fmt.Errorf("GC(start=%d) accepted although start is beyond the head file %d", op.Begin, head)
		}
		if first.begin != refStart {
			return fmt.Errorf("GC(start=%d,end=%d) resolved start %d; first non-empty file at or after the requested start is %d (head %d, next-gc %d)", op.Begin, op.End, first.begin, refStart, head, nextGC)
		}
		if first.end >= head {
			return fmt.Errorf("GC(start=%d,end=%d) resolved end %d which is not below the head file %d", op.Begin, op.End, first.end, head)
		}
		if op.End >= 0 && op.End < head-1 && first.end > op.End {
			return fmt.Errorf("GC(start=%d,end=%d) resolved end %d beyond the requested end", op.Begin, op.End, first.end)
		}
		if first.end < first.begin {
			return fmt.Errorf("GC accepted an empty range [%d,%d]", first.begin, first.end)
		}
		if first.begin != op.Begin || first.end != op.End {
			r.label("range_resolved")
		}
	} else {
		r.label("gc_request_rejected")
	}
	if op.Pretend || first.err != nil {
		if op.Pretend {
			r.label("pretend")
		}
		if pt.enters != 0 {
			return fmt.Errorf("a GC pass ran although the request was %s", map[bool]string{true: "pretend-only", false: "rejected"}[op.Pretend])
		}
		if len(pt.fsEvts) != 0 {
			return fmt.Errorf("file-system mutations during a %s GC request: %v", map[bool]string{true: "pretend-only", false: "rejected"}[op.Pretend], pt.fsEvts)
		}
		for id, b := range before {
			if !bytes.Equal(after[id], b) {
				return fmt.Errorf("data file %03d changed during a pretend/rejected GC request", id)
			}
		}
		return nil
	}
	// ---- safety consequences on the inventory
	begin, end := first.begin, first.end
	changedBelow := -1
	ids := []int{}
	for id := range before {
		ids = append(ids, id)
	}
	sort.Ints(ids)
	for _, id := range ids {
		b := before[id]
		a, exists := after[id]
		same := exists && bytes.Equal(a, b)
		if same {
			continue
		}
		if id >= head {
			return fmt.Errorf("GC [%d,%d] touched the file %03d that receives appends (head %d)", begin, end, id, head)
		}
		if id > end {
			return fmt.Errorf("GC [%d,%d] touched file %03d above its range", begin, end, id)
		}
		if id < begin {
			if changedBelow >= 0 {
				return fmt.Errorf("GC [%d,%d] changed two existing files below its range: %03d and %03d", begin, end, changedBelow, id)
			}
			changedBelow = id
			if !exists || len(a) < len(b) || !bytes.Equal(a[:len(b)], b) {
				return fmt.Errorf("GC [%d,%d] rewrote earlier file %03d instead of only appending to it", begin, end, id)
			}
			continue
		}
		// inside the range: the age rule, from the first record of the following non-empty file
		next := -1
		for _, j := range ids {
			if j > id && len(before[j]) >= 24 {
				next = j
				break
			}
		}
		if next >= 0 {
			ts := int64(binary.LittleEndian.Uint32(before[next][4:8]))
			if !(now-ts > int64(effDays)*86400-120) { // 2 minutes of slack for the clock reads
				return fmt.Errorf("GC [%d,%d] (no_gc_days=%d) rewrote/removed file %03d although the following file %03d started only %d s ago", begin, end, effDays, id, next, now-ts)
			}
			if now-ts < 86400 {
				r.label("collected_file_younger_than_a_day")
			}
		}
		r.label("file_collected")
	}
	for id := range after {
		if _, ok := before[id]; !ok && id >= head {
			return fmt.Errorf("GC [%d,%d] created file %03d at or above the head %d", begin, end, id, head)
		}
	}
	return nil
}

// waitEntered waits until a pass has entered (and is held).
func (r *histRunner) waitEntered(pt *passTracker) error {
	deadline := time.Now().Add(30 * time.Second)
	for {
		pt.mu.Lock()
		n := pt.enters
		pt.mu.Unlock()
		if n > 0 {
			return nil
		}
		if time.Now().After(deadline) {
			return infraf("accepted GC pass did not start")
		}
		time.Sleep(100 * time.Microsecond)
	}
}

func (r *histRunner) waitPasses(pt *passTracker) error {
	deadline := time.Now().Add(60 * time.Second)
	for {
		pt.mu.Lock()
		idle := pt.active == 0
		en, ex := pt.enters, pt.exits
		pt.mu.Unlock()
		if idle && en == ex && !r.store.IsGCRunning() {
			// a pass that was accepted may not have entered yet: give the goroutine a moment, then re-check once
			time.Sleep(2 * time.Millisecond)
			pt.mu.Lock()
			idle2 := pt.active == 0 && pt.enters == pt.exits
			pt.mu.Unlock()
			if idle2 && !r.store.IsGCRunning() {
				return nil
			}
		}
		if time.Now().After(deadline) {
			return infraf("GC pass did not finish in time")
		}
		time.Sleep(200 * time.Microsecond)
	}
}

var c17Eligibility = &histCheck{
	property: "C17",
	name:     "TestVerif_C17_Eligibility",
	profile: func() *genProfile {
		f := false
		p := &genProfile{minOps: 6, maxOps: 40, gc: true, tinyFiles: true, maxKeys: 6, buckets: []int{1}, checkVHash: &f, maxHeight: 3,
			kinds: []string{"set", "set", "set", "set", "set", "delete", "rotate", "rotate", "rotate", "flush", "gc", "get", "reopen", "freshen"}}
		// the configured no_gc_days applies when a request passes a negative value (the web handler's default)
		p.postCfg = func(t *rapid.T, c *Cfg) {
			d := rapid.SampledFrom([]int{0, 7, 1, 0, 20000}).Draw(t, "conf_nogcdays")
			c.NoGCDays = &d
		}
		return p
	},
	postGen: func(t *rapid.T, h *History) {
		n := rapid.IntRange(1, 3).Draw(t, "nreq")
		// "other than the single earlier file it appends to" matters when several earlier files exist in different
		// states (compacted with room / full): an early pass over the first file(s), more data, then requests that start higher
		layered := rapid.IntRange(0, 2).Draw(t, "layered") == 0
		if layered && len(h.Ops) >= 6 {
			pos := len(h.Ops)/3 + rapid.IntRange(0, len(h.Ops)/3).Draw(t, "earlygc")
			ops := append([]Op{}, h.Ops[:pos]...)
			ops = append(ops, Op{Kind: "gc", Begin: 0, End: rapid.IntRange(0, 1).Draw(t, "earlyend"), Merge: rapid.Bool().Draw(t, "earlymerge")})
			h.Ops = append(ops, h.Ops[pos:]...)
		}
		for i := 0; i < n; i++ {
			op := Op{Kind: "gcreq"}
			op.Begin = rapid.SampledFrom([]int{-1, 0, 0, 1, 2, 3, 5, 8, 100, 997, -7}).Draw(t, "begin")
			op.End = rapid.SampledFrom([]int{-1, -1, 0, 1, 2, 3, 5, 8, 100, 997, -3}).Draw(t, "end")
			op.NoGCDays = rapid.SampledFrom([]int{0, 0, 1, 7, -1, 20000}).Draw(t, "nogcdays")
			op.Merge = rapid.Bool().Draw(t, "merge")
			op.Pretend = rapid.IntRange(0, 4).Draw(t, "pretend") == 0
			op.Double = rapid.SampledFrom([]string{"", "", "", "parked", "backtoback", "cancelled"}).Draw(t, "double")
			op.Force = rapid.IntRange(0, 3).Draw(t, "flushfirst") > 0
			if layered && i == 0 {
				op.Begin = rapid.SampledFrom([]int{2, 2, 3, 4}).Draw(t, "layeredbegin")
				op.End = rapid.SampledFrom([]int{-1, -1, 5, 8}).Draw(t, "layeredend")
				op.NoGCDays, op.Pretend = 0, false
			}
			h.Ops = append(h.Ops, op)
			if rapid.Bool().Draw(t, "more") {
				h.Ops = append(h.Ops, Op{Kind: "rotate", K: 0}, Op{Kind: "set", K: 0, V: h.Ops[0].V})
			}
		}
	},
	// the same safety consequences for every pass of the history, not only for the requests appended at its end
	opts: func() runOpts {
		return runOpts{afterGC: func(r *histRunner, bid, begin, end int, merge bool, before *gcBefore) error {
			r.label("pass_inventory_checked")
			_, err := gcInventorySafety(r, r.store.buckets[bid], begin, end, before)
			return err
		}}
	},
	nontrivial: func(r *histRunner) bool {
		return r.labels["range_resolved"] || r.labels["double_request_parked"] || r.labels["double_request_backtoback"] || r.labels["request_after_cancel"]
	},
}

func TestVerif_C17_Eligibility(t *testing.T) { c17Eligibility.check(t) }

func init() { c17Eligibility.register() }

// The inventory consequences alone, over the general GC histories of C03/C18 (more files, repeated passes, restarts):
// whatever range a pass was given, the head file and every existing file outside the range stay byte-identical,
// except one earlier file that may only grow.
var c17Inventory = &histCheck{
	property: "C17",
	name:     "TestVerif_C17_PassInventory",
	profile: func() *genProfile {
		p := &genProfile{minOps: 8, maxOps: 60, reopen: true, gc: true, tinyFiles: true, maxKeys: 10}
		if thorough() {
			p.maxOps = 140
		}
		return p
	},
	opts: func() runOpts {
		return runOpts{afterGC: func(r *histRunner, bid, begin, end int, merge bool, before *gcBefore) error {
			r.label("pass_inventory_checked")
			if begin >= 2 {
				r.label("pass_from_file>=2")
			}
			_, err := gcInventorySafety(r, r.store.buckets[bid], begin, end, before)
			return err
		}}
	},
	nontrivial: func(r *histRunner) bool { return r.labels["pass_inventory_checked"] && r.labels["gc_released"] },
}

func TestVerif_C17_PassInventory(t *testing.T) { c17Inventory.check(t) }

func init() { c17Inventory.register() }
