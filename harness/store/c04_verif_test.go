package store

// C04: concurrent clients see per-key linearizable writes and reads.
// Generated workload (client scripts) x generated schedule script (yield/sleep actions at the store's
// synchronisation hook points) with background flusher / hint dumper actors; the recorded invocation/response
// history is checked with porcupine against a per-key register model and with direct version/real-time invariants.
// The Go scheduler is not owned: a failing *history* is the reproducible unit (the replay re-validates it).

import (
	"bytes"
	"encoding/json"
	"fmt"
	"os"
	"runtime"
	"sort"
	"strconv"
	"strings"
	"sync"
	"sync/atomic"
	"testing"
	"time"

	"github.com/anishathalye/porcupine"
	"github.com/douban/gobeansdb/verifkit"
	"pgregory.net/rapid"
)

type c04Op struct {
	Kind string `json:"op"` // set delete get
	K    int    `json:"k"`
	Size int    `json:"size,omitempty"`
}

type c04Event struct {
	Client int    `json:"c"`
	Kind   string `json:"op"`
	K      int    `json:"k"`
	W      string `json:"w,omitempty"`   // set: id of the value written
	Out    string `json:"out,omitempty"` // get: id read ("" = miss); delete: "found"/"notfound"
	Ver    int32  `json:"ver,omitempty"` // set/delete: version assigned; get: version read
	Call   int64  `json:"call"`
	Ret    int64  `json:"ret"`
	Err    string `json:"err,omitempty"`
	// InGC: a GC pass was active at some moment between call and return (C05 stress unit)
	InGC bool `json:"ingc,omitempty"`
}

type c04Case struct {
	Cfg      Cfg       `json:"cfg"`
	Clients  [][]c04Op `json:"clients"`
	Schedule []int     `json:"schedule"` // actions taken round-robin at hook points
	Flusher  int       `json:"flusher"`  // 0 none, 1 lazy, 2 forced
	Dumper   bool      `json:"dumper"`
	Reopen   bool      `json:"reopen"`
	// CloseRace: the graceful shutdown runs while the flusher / hint dumper loops are still active (as in production,
	// where those goroutines are never stopped); the directory image taken when Close returns is what is restarted
	CloseRace bool `json:"closerace,omitempty"`
	// GC (C05 stress unit): 1 = a background actor keeps requesting GC passes over everything below the head (through
	// HStore.GC, as beansdbadmin does), 2 = the same with the hint merge step
	GC int `json:"gc,omitempty"`
	// filled when a violation is found: the recorded history (the replay re-validates it without running anything)
	History []c04Event `json:"history,omitempty"`
	Final   []string   `json:"final,omitempty"`

	gcPasses int64 // passes accepted during the last execution (label)
}

func c04Value(client, seq, size int) []byte {
	id := fmt.Sprintf("w%d.%d|", client, seq)
	b := make([]byte, len(id)+size)
	copy(b, id)
	for i := len(id); i < len(b); i++ {
		b[i] = byte('a' + (i+client+seq)%23)
	}
	return b
}

func c04ID(b []byte) string {
	i := bytes.IndexByte(b, '|')
	if i < 0 || !bytes.HasPrefix(b, []byte("w")) {
		return fmt.Sprintf("?garbage:%.20q", b)
	}
	return string(b[:i])
}

// execute runs the workload once and returns the recorded history and the final per-key ids.
func c04Execute(c *c04Case) (hist []c04Event, final []string, finalVers []int32, err error) {
	defer func() {
		if e := recover(); e != nil {
			err = panicToError(e)
		}
	}()
	home := newHome()
	defer os.RemoveAll(home)
	applyCfg(&c.Cfg, home)
	hooks.reset(false)
	markDriver()
	driverGoid = -2 // FATAL on any goroutine exits the process (the current case is on disk)
	var evCounter int64
	sched := c.Schedule
	var gcEpoch int64 // odd while a GC pass is active
	yield := func(name string, args ...interface{}) {
		if name == "gc.pass.enter" || name == "gc.pass.exit" {
			atomic.AddInt64(&gcEpoch, 1)
			return
		}
		if len(sched) == 0 {
			return
		}
		switch name {
		case "bkt.set.appended", "dc.flush.written", "dc.flush.detached", "dc.flush.append.before", "dc.flush.appended", "ds.flush.enter", "ds.rotate", "ds.flush.write.before":
		case "gc.rec.checked", "gc.rec.copied", "gc.repoint.got", "gc.rec.repointed", "gc.src.begin", "gc.src.cleared":
			if c.GC == 0 {
				return
			}
		default:
			return
		}
		n := atomic.AddInt64(&evCounter, 1)
		switch sched[int(n)%len(sched)] {
		case 1:
			runtime.Gosched()
		case 2:
			for i := 0; i < 5; i++ {
				runtime.Gosched()
			}
		case 3:
			time.Sleep(30 * time.Microsecond)
		case 4:
			time.Sleep(300 * time.Microsecond)
		}
	}
	hooks.mu.Lock()
	hooks.extra = yield
	hooks.mu.Unlock()
	s, e := openStore(&c.Cfg)
	if e != nil {
		return nil, nil, nil, e
	}
	start := time.Now()
	var mu sync.Mutex
	var wg sync.WaitGroup
	stop := make(chan struct{})
	var bg sync.WaitGroup
	if c.Flusher > 0 {
		bg.Add(1)
		go func() {
			defer bg.Done()
			for {
				select {
				case <-stop:
					return
				default:
				}
				s.flushdatas(c.Flusher == 2)
				runtime.Gosched()
				time.Sleep(20 * time.Microsecond)
			}
		}()
	}
	if c.Dumper {
		bg.Add(1)
		go func() {
			defer bg.Done()
			for {
				select {
				case <-stop:
					return
				default:
				}
				for _, b := range s.buckets {
					if b.State == BUCKET_STAT_READY {
						b.hints.dumpAndMerge(false)
					}
				}
				time.Sleep(50 * time.Microsecond)
			}
		}()
	}
	var gcPasses int64
	if c.GC > 0 {
		bg.Add(1)
		go func() {
			defer bg.Done()
			for {
				for bid, b := range s.buckets {
					if b.State != BUCKET_STAT_READY {
						continue
					}
					if _, _, err := s.GC(bid, 0, -1, 0, c.GC == 2, false); err == nil {
						atomic.AddInt64(&gcPasses, 1)
					}
					for s.IsGCRunning() {
						time.Sleep(20 * time.Microsecond)
					}
				}
				select {
				case <-stop:
					return
				default:
				}
				time.Sleep(50 * time.Microsecond)
			}
		}()
	}
	defer func() { c.gcPasses = atomic.LoadInt64(&gcPasses) }()
	for ci, script := range c.Clients {
		wg.Add(1)
		go func(ci int, script []c04Op) {
			defer wg.Done()
			local := make([]c04Event, 0, len(script))
			for seq, op := range script {
				key := c.Cfg.Keys[op.K%len(c.Cfg.Keys)]
				ev := c04Event{Client: ci, Kind: op.Kind, K: op.K % len(c.Cfg.Keys)}
				switch op.Kind {
				case "set":
					val := c04Value(ci, seq, op.Size)
					ev.W = c04ID(val)
					p := newPayload(val, uint32(ci), 0, uint32(1000+seq))
					ev.Call = int64(time.Since(start))
					err := s.Set(newKI(key), p)
					ev.Ret = int64(time.Since(start))
					ev.Ver = p.Ver
					if err != nil {
						ev.Err = err.Error()
					}
				case "delete":
					p := newDeletePayload(uint32(1000 + seq))
					ev.Call = int64(time.Since(start))
					err := s.Set(newKI(key), p)
					ev.Ret = int64(time.Since(start))
					ev.Ver = p.Ver
					switch {
					case err == nil:
						ev.Out = "found"
					case err.Error() == "NOT_FOUND":
						ev.Out = "notfound"
					default:
						ev.Err = err.Error()
					}
				case "get":
					e0 := atomic.LoadInt64(&gcEpoch)
					ev.Call = int64(time.Since(start))
					p, _, err := s.Get(newKI(key), false)
					ev.Ret = int64(time.Since(start))
					e1 := atomic.LoadInt64(&gcEpoch)
					ev.InGC = e0%2 == 1 || e1 != e0
					if err != nil {
						ev.Err = err.Error()
					} else if p != nil && p.Ver > 0 {
						ev.Out = c04ID(p.Body)
						ev.Ver = p.Ver
						if ev.Out[0] != '?' && !bytes.Equal(p.Body, c04ValueOf(ev.Out, len(p.Body))) {
							ev.Out = "?torn:" + ev.Out
						}
					} else if p != nil {
						ev.Ver = p.Ver
					}
					freePayload(p)
				}
				local = append(local, ev)
			}
			mu.Lock()
			hist = append(hist, local...)
			mu.Unlock()
		}(ci, script)
	}
	wg.Wait()
	if c.Reopen && c.CloseRace && (c.Flusher > 0 || c.Dumper) {
		// clients are done; shut down under the noses of the background actors
		if e := hooks.waitFor("rotation flushes", func() bool { return hooks.rotExit >= hooks.rotEnter && hooks.rotEnter >= hooks.counts["ds.rotate"] }); e != nil {
			return hist, nil, nil, e
		}
		closeStore(s)
		img := home + "-img"
		os.RemoveAll(img)
		defer os.RemoveAll(img)
		if e := verifkit.CopyDir(home, img); e != nil {
			return hist, nil, nil, infraf("copy image: %v", e)
		}
		close(stop)
		bg.Wait()
		discardStore(s)
		applyCfg(&c.Cfg, img)
		s2, e := openStore(&c.Cfg)
		if e != nil {
			return hist, nil, nil, fmt.Errorf("restart of the image taken when Close returned (background actors still running) failed: %v", e)
		}
		ids := make([]string, len(c.Cfg.Keys))
		vers := make([]int32, len(c.Cfg.Keys))
		for k, key := range c.Cfg.Keys {
			p, _, err := s2.Get(newKI(key), false)
			if err != nil {
				return hist, nil, nil, fmt.Errorf("after shutdown under running flusher/dumper and restart: Get(%q): %v", key, err)
			}
			if p != nil {
				vers[k] = p.Ver
				if p.Ver > 0 {
					ids[k] = c04ID(p.Body)
				}
			}
			freePayload(p)
		}
		closeStore(s2)
		discardStore(s2)
		return hist, ids, vers, nil
	}
	close(stop)
	bg.Wait()
	if e := hooks.waitFor("rotation flushes", func() bool { return hooks.rotExit >= hooks.rotEnter && hooks.rotEnter >= hooks.counts["ds.rotate"] }); e != nil {
		return hist, nil, nil, e
	}
	s.flushdatas(true)
	read := func() ([]string, []int32, error) {
		ids := make([]string, len(c.Cfg.Keys))
		vers := make([]int32, len(c.Cfg.Keys))
		for k, key := range c.Cfg.Keys {
			p, _, err := s.Get(newKI(key), false)
			if err != nil {
				return nil, nil, fmt.Errorf("final Get(%q): %v", key, err)
			}
			if p != nil {
				vers[k] = p.Ver
				if p.Ver > 0 {
					ids[k] = c04ID(p.Body)
				}
			}
			freePayload(p)
		}
		return ids, vers, nil
	}
	final, finalVers, err = read()
	if err != nil {
		return hist, nil, nil, err
	}
	if c.Reopen {
		closeStore(s)
		discardStore(s)
		s, e = openStore(&c.Cfg)
		if e != nil {
			return hist, final, finalVers, fmt.Errorf("reopen after the concurrent run failed: %v", e)
		}
		f2, _, e2 := read()
		if e2 != nil {
			return hist, final, finalVers, e2
		}
		for k := range final {
			if f2[k] != final[k] {
				return hist, final, finalVers, fmt.Errorf("after restart key %q holds %q, before the restart %q", c.Cfg.Keys[k], f2[k], final[k])
			}
		}
	}
	closeStore(s)
	discardStore(s)
	return hist, final, finalVers, nil
}

// c04ValueOf rebuilds the full value from its id and length.
func c04ValueOf(id string, n int) []byte {
	var ci, seq int
	fmt.Sscanf(id, "w%d.%d", &ci, &seq)
	idl := len(id) + 1
	if n < idl {
		return nil
	}
	return c04Value(ci, seq, n-idl)
}

type regInput struct {
	kind string
	key  int
	w    string
}

var c04Model = porcupine.Model{
	Partition: func(history []porcupine.Operation) [][]porcupine.Operation {
		m := map[int][]porcupine.Operation{}
		for _, op := range history {
			k := op.Input.(regInput).key
			m[k] = append(m[k], op)
		}
		keys := make([]int, 0, len(m))
		for k := range m {
			keys = append(keys, k)
		}
		sort.Ints(keys)
		out := make([][]porcupine.Operation, 0, len(m))
		for _, k := range keys {
			out = append(out, m[k])
		}
		return out
	},
	Init: func() interface{} { return "" },
	Step: func(state, input, output interface{}) (bool, interface{}) {
		in := input.(regInput)
		st := state.(string)
		out := output.(string)
		switch in.kind {
		case "set":
			return true, in.w
		case "delete":
			if out == "found" {
				return st != "", ""
			}
			return st == "", st
		default:
			return out == st, st
		}
	},
	Equal: func(a, b interface{}) bool { return a.(string) == b.(string) },
}

// c04Check validates a recorded history.
func c04Check(c *c04Case, hist []c04Event, final []string, finalVers []int32) (labels []string, err error) {
	var ops []porcupine.Operation
	written := map[int]map[string]bool{}
	type wr struct {
		ev  c04Event
		abs int32
	}
	writes := map[int][]wr{}
	for _, ev := range hist {
		if ev.Err != "" {
			return labels, fmt.Errorf("client %d %s(key %d) returned error %q", ev.Client, ev.Kind, ev.K, ev.Err)
		}
		in := regInput{kind: ev.Kind, key: ev.K, w: ev.W}
		ops = append(ops, porcupine.Operation{ClientId: ev.Client, Input: in, Call: ev.Call, Output: ev.Out, Return: ev.Ret})
		if ev.Kind == "set" {
			if written[ev.K] == nil {
				written[ev.K] = map[string]bool{}
			}
			written[ev.K][ev.W] = true
		}
		if ev.Kind == "set" || (ev.Kind == "delete" && ev.Out == "found") {
			a := ev.Ver
			if a < 0 {
				a = -a
			}
			writes[ev.K] = append(writes[ev.K], wr{ev, a})
		}
	}
	// every read returns a value some write to that key actually stored
	for _, ev := range hist {
		if ev.Kind == "get" && ev.Out != "" {
			if strings.HasPrefix(ev.Out, "?") {
				return labels, fmt.Errorf("client %d read a torn/foreign value for key %d: %s", ev.Client, ev.K, ev.Out)
			}
			if !written[ev.K][ev.Out] {
				return labels, fmt.Errorf("client %d read %q for key %d, which no client wrote to that key", ev.Client, ev.Out, ev.K)
			}
		}
	}
	// versions: distinct per key, and real-time order is respected
	overlapWW, overlapRW := false, false
	for k, ws := range writes {
		seen := map[int32]c04Event{}
		for _, w := range ws {
			if prev, dup := seen[w.abs]; dup {
				return labels, fmt.Errorf("key %d: two accepted writes got the same version %d: client %d %s %s and client %d %s %s", k, w.abs, prev.Client, prev.Kind, prev.W, w.ev.Client, w.ev.Kind, w.ev.W)
			}
			seen[w.abs] = w.ev
		}
		for i := range ws {
			for j := range ws {
				if i == j {
					continue
				}
				a, b := ws[i], ws[j]
				if a.ev.Ret < b.ev.Call && !(a.abs < b.abs) {
					return labels, fmt.Errorf("key %d: write %s/%s (version %d) was acknowledged before write %s/%s (version %d) was issued, but did not get the smaller version", k, a.ev.Kind, a.ev.W, a.abs, b.ev.Kind, b.ev.W, b.abs)
				}
				if a.ev.Client != b.ev.Client && a.ev.Call < b.ev.Ret && b.ev.Call < a.ev.Ret {
					overlapWW = true
				}
			}
		}
		// a read that began after the acknowledgement of a write never returns an older version
		for _, ev := range hist {
			if ev.Kind != "get" || ev.K != k {
				continue
			}
			ra := ev.Ver
			if ra < 0 {
				ra = -ra
			}
			for _, w := range ws {
				if w.ev.Ret < ev.Call && ra < w.abs {
					return labels, fmt.Errorf("key %d: a read issued after write %s/%s (version %d) was acknowledged returned version %d", k, w.ev.Kind, w.ev.W, w.abs, ev.Ver)
				}
				if ev.Call < w.ev.Ret && w.ev.Call < ev.Ret {
					overlapRW = true
				}
			}
		}
		// once all clients stopped: the key holds the write with the highest version
		if final != nil && len(ws) > 0 {
			best := ws[0]
			for _, w := range ws {
				if w.abs > best.abs {
					best = w
				}
			}
			want := best.ev.W
			if best.ev.Kind == "delete" {
				want = ""
			}
			if final[k] != want {
				return labels, fmt.Errorf("key %d: after all clients stopped it holds %q (version %d); the write with the highest version is %s/%q (version %d)", k, final[k], finalVers[k], best.ev.Kind, best.ev.W, best.abs)
			}
		}
	}
	res := porcupine.CheckOperationsTimeout(c04Model, ops, 20*time.Second)
	if res == porcupine.Illegal {
		return labels, fmt.Errorf("the recorded history of %d operations is not linearizable per key (porcupine)", len(ops))
	}
	if res == porcupine.Unknown {
		labels = append(labels, "porcupine_timeout")
	}
	if overlapWW {
		labels = append(labels, "overlapping_writes")
	}
	if overlapRW {
		labels = append(labels, "read_overlaps_write")
	}
	return labels, nil
}

func c04Gen(t *rapid.T) *c04Case {
	c := &c04Case{}
	f := false
	p := &genProfile{buckets: []int{1, 1, 16}, maxHeight: 3, checkVHash: &f, tinyFiles: true, maxKeys: 4}
	c.Cfg = genCfg(t, p)
	c.Cfg.Groups = nil
	c.Cfg.Served = nil
	c.Cfg.ParkRotFlush = false
	nk := len(c.Cfg.Keys)
	if nk > 4 {
		c.Cfg.Keys = c.Cfg.Keys[:4]
		nk = 4
	}
	nclients := rapid.IntRange(2, 8).Draw(t, "nclients")
	if verifkit.Thorough() {
		nclients = rapid.IntRange(2, 16).Draw(t, "nclients_t")
	}
	opGen := rapid.Custom(func(t *rapid.T) c04Op {
		o := c04Op{Kind: rapid.SampledFrom([]string{"set", "set", "get", "get", "delete", "set", "get"}).Draw(t, "kind")}
		o.K = rapid.IntRange(0, nk-1).Draw(t, "k")
		if o.Kind == "set" {
			o.Size = rapid.SampledFrom([]int{0, 10, 200, 230, 300, 500}).Draw(t, "size")
			if int64(o.Size)+40 > c.Cfg.BodyMax {
				o.Size = 0
			}
		}
		return o
	})
	for i := 0; i < nclients; i++ {
		n := rapid.IntRange(3, 25).Draw(t, "minops")
		c.Clients = append(c.Clients, rapid.SliceOfN(opGen, n, 40).Draw(t, "script"))
	}
	c.Schedule = rapid.SliceOfN(rapid.IntRange(0, 4), 1, 24).Draw(t, "schedule")
	c.Flusher = rapid.IntRange(0, 2).Draw(t, "flusher")
	c.Dumper = rapid.Bool().Draw(t, "dumper")
	c.Reopen = rapid.IntRange(0, 2).Draw(t, "reopen") == 0
	c.CloseRace = c.Reopen && rapid.Bool().Draw(t, "closerace")
	return c
}

func TestVerif_C04_Concurrent(t *testing.T) {
	st := verifkit.StatsFor("TestVerif_C04_Concurrent")
	defer verifkit.ClearCurrent()
	rapid.Check(t, func(t *rapid.T) {
		c := c04Gen(t)
		verifkit.SetCurrent("C04", "TestVerif_C04_Concurrent", c)
		hist, final, fv, err := c04Execute(c)
		if err != nil && isInfra(err) {
			t.Fatalf("%v", err)
		}
		var labels []string
		if err == nil {
			labels, err = c04Check(c, hist, final, fv)
		}
		nontrivial := false
		has := map[string]bool{}
		for _, l := range labels {
			has[l] = true
		}
		nontrivial = err == nil && has["overlapping_writes"] && has["read_overlaps_write"]
		if hooks.count("ds.rotate") > 0 {
			labels = append(labels, "rotation_during_run")
		}
		if c.Flusher > 0 {
			labels = append(labels, "flusher")
		}
		if c.Dumper {
			labels = append(labels, "hint_dumper")
		}
		if c.Reopen {
			labels = append(labels, "reopen")
		}
		if c.Reopen && c.CloseRace && (c.Flusher > 0 || c.Dumper) {
			labels = append(labels, "shutdown_under_background_actors")
		}
		labels = append(labels, "buckets="+strconv.Itoa(c.Cfg.NumBucket))
		sample := map[string]interface{}{"cfg": c.Cfg, "clients": len(c.Clients), "first_script": c.Clients[0], "schedule": c.Schedule, "ops_recorded": len(hist)}
		st.Case(labels, nontrivial, canon(c), sample)
		if err != nil {
			c.History, c.Final = hist, final
			verifkit.Fail("C04", "TestVerif_C04_Concurrent", c, err.Error())
			t.Fatalf("%v", err)
		}
	})
}

func init() {
	replayers["TestVerif_C04_Concurrent"] = func(raw json.RawMessage) error {
		c := &c04Case{}
		if err := json.Unmarshal(raw, c); err != nil {
			return err
		}
		if len(c.History) > 0 {
			// the recorded history is the reproducible unit: validate it deterministically
			_, err := c04Check(c, c.History, nil, nil)
			if err != nil {
				return err
			}
		}
		// and run the workload a few times under the same schedule script
		for i := 0; i < 10; i++ {
			hist, final, fv, err := c04Execute(c)
			if err != nil {
				return err
			}
			if _, err := c04Check(c, hist, final, fv); err != nil {
				return err
			}
		}
		return nil
	}
}
