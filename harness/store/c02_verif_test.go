package store

import "testing"

// C02: clean restart preserves everything; index files are rebuildable caches.
var c02Reopen = &histCheck{
	property: "C02",
	name:     "TestVerif_C02_Reopen",
	profile: func() *genProfile {
		p := &genProfile{minOps: 2, maxOps: 50, reopen: true, park: true}
		if thorough() {
			p.maxOps = 120
		}
		return p
	},
	opts: func() runOpts { return runOpts{} },
	nontrivial: func(r *histRunner) bool {
		return r.reopens > 0 && r.deletedFiles > 0 && (r.labels["overwrite"] || r.labels["delete"])
	},
	extraLabel: func(r *histRunner) {
		if r.reopens > 1 {
			r.label("reopen_twice")
		}
	},
}

func TestVerif_C02_Reopen(t *testing.T) { c02Reopen.check(t) }

func init() { c02Reopen.register() }
