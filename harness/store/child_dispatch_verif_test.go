package store

import "os"

var childModes = map[string]func() int{}

func childDispatch() int {
	f := childModes[os.Getenv("VERIF_CHILD")]
	if f == nil {
		return 97
	}
	return f()
}
