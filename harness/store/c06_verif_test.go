package store

// C06 / C07: process kill (SIGKILL model) in normal operation and during GC.
// The history runs in-process with a hook handler that copies the database directory at every file-system
// mutation boundary (a SIGKILL image: completed writes present, in-memory buffers absent); every image (and torn
// variants of data writes) is then opened by NewHStore in a fresh child process and compared with what the image's
// data files durably hold according to the independent scanner.

import (
	"bufio"
	"bytes"
	"crypto/sha1"
	"encoding/hex"
	"encoding/json"
	"fmt"
	"os"
	"os/exec"
	"path/filepath"
	"sort"
	"strings"
	"sync"
	"testing"

	"github.com/douban/gobeansdb/verifkit"
	"pgregory.net/rapid"
)

type crashImage struct {
	dir    string
	event  string
	op     int
	tornOf string // data file that was artificially cut ("" = image as observed)
	cut    int64
	gcInfo string
	pre    []*mkey // C07: the model right before the GC pass during which the image was taken
	// affected (torn variants of a GC write into a file that is being rewritten in place): keys whose record in the
	// old file content overlaps the bytes that the partial write replaced
	affected map[string]bool
	// durable state of the image, scanned BEFORE the child opens it: the child writes a probe record and runs a GC
	// pass on the recovered store, which rewrites the data files according to what the recovered tree believes
	dur     map[string]durable
	durTorn bool
	durDone bool
}

// snapshotter copies the home directory at hook events.
type snapshotter struct {
	r        *histRunner
	base     string
	images   []*crashImage
	lastSig  string
	max      int
	preWrite map[string]*crashImage // data path -> image taken right before the flush write of that file
	preSize  map[string]int64
	events   map[string]bool
	inGC     bool
	gcOnly   bool
	dropped  int
	mu       sync.Mutex
	noTorn   bool // no torn variants of data writes (the chain unit: they are C06_Kill's subject)
}

var snapEventsNormal = []string{"fs.create", "fs.rename.before", "fs.rename.after", "fs.remove.before", "fs.remove.after",
	"fs.rewrite.before", "fs.rewrite.after", "fs.truncate.before", "fs.truncate.after", "fs.write.before", "fs.write.after",
	"ds.flush.write.before", "ds.flush.write.after", "dc.flush.appended", "dc.flush.written",
	"gc.src.cleared", "gc.dst.switch", "gc.rec.copied", "gc.rec.repointed", "gc.rec.hinted", "gc.src.begin"}

func newSnapshotter(r *histRunner, gcOnly bool) *snapshotter {
	max := 150
	if thorough() {
		max = 400
	}
	s := &snapshotter{r: r, max: max, preWrite: map[string]*crashImage{}, preSize: map[string]int64{}, events: map[string]bool{}, gcOnly: gcOnly}
	for _, e := range snapEventsNormal {
		s.events[e] = true
	}
	return s
}

func dirSignature(dir string) string {
	h := sha1.New()
	filepath.Walk(dir, func(p string, info os.FileInfo, err error) error {
		if err != nil || info.IsDir() {
			return nil
		}
		rel, _ := filepath.Rel(dir, p)
		fmt.Fprintf(h, "%s:%d:%d;", rel, info.Size(), info.ModTime().UnixNano())
		return nil
	})
	return hex.EncodeToString(h.Sum(nil))
}

func (s *snapshotter) take(event string, info string) *crashImage {
	if s.base == "" {
		s.base = s.r.home + "-images"
		os.RemoveAll(s.base)
		os.MkdirAll(s.base, 0755)
	}
	if len(s.images) >= s.max {
		s.dropped++
		return nil
	}
	img := &crashImage{dir: filepath.Join(s.base, fmt.Sprintf("i%04d", len(s.images))), event: event, op: s.r.curOp, gcInfo: info}
	if s.gcOnly {
		img.pre = s.r.preGC
	}
	if err := verifkit.CopyDir(s.r.home, img.dir); err != nil {
		return nil
	}
	sig := contentSignature(img.dir)
	if sig == s.lastSig {
		os.RemoveAll(img.dir)
		return nil
	}
	s.lastSig = sig
	s.images = append(s.images, img)
	return img
}

func contentSignature(dir string) string {
	inv, _ := verifkit.Inventory(dir)
	h := sha1.New()
	for _, n := range verifkit.SortedNames(inv) {
		fmt.Fprintf(h, "%s:%d:%s;", n, inv[n].Size, inv[n].SHA1)
	}
	return hex.EncodeToString(h.Sum(nil))
}

func (s *snapshotter) handle(name string, args ...interface{}) {
	// hook points fire on several goroutines (interpreter, rotation flush, a pass started through the API)
	s.mu.Lock()
	defer s.mu.Unlock()
	switch name {
	case "gc.pass.enter":
		s.inGC = true
	case "gc.pass.exit":
		s.inGC = false
		if s.gcOnly {
			s.take(name, "")
		}
		return
	}
	if !s.events[name] {
		return
	}
	if s.gcOnly && !s.inGC {
		return
	}
	info := ""
	if strings.HasPrefix(name, "gc.") {
		info = fmt.Sprint(args...)
	}
	img := s.take(name, info)
	// torn variants of data writes: remember the directory right before the write, materialise cuts afterwards
	switch name {
	case "ds.flush.write.before", "fs.write.before":
		path := args[0].(string)
		if img == nil && len(s.images) > 0 {
			img = s.images[len(s.images)-1] // identical to the previous image
		}
		if img != nil {
			s.preWrite[path] = img
			if st, err := os.Stat(path); err == nil {
				s.preSize[path] = st.Size()
			} else {
				s.preSize[path] = 0
			}
			if name == "fs.write.before" { // GC append: the write position is given (in-place rewrite writes inside the file)
				s.preSize[path] = int64(args[1].(uint32))
			}
		}
	case "ds.flush.write.after", "fs.write.after":
		path := args[0].(string)
		pre := s.preWrite[path]
		delete(s.preWrite, path)
		if pre == nil || s.noTorn {
			return
		}
		final, err := os.ReadFile(path)
		if err != nil {
			return
		}
		from := s.preSize[path]
		to := int64(len(final))
		if name == "fs.write.after" {
			to = from + int64(args[2].(uint32))
			if to > int64(len(final)) {
				to = int64(len(final))
			}
		}
		if to <= from {
			return
		}
		rel, _ := filepath.Rel(s.r.home, path)
		var cuts []int64
		for c := (from/256 + 1) * 256; c < to && len(cuts) < 12; c += 256 {
			cuts = append(cuts, c)
		}
		// unaligned cuts: inside the header, the key, the value (positions derived from the write itself)
		for _, d := range []int64{1, 5, 23, 24, 30, 100, (to - from) / 2, to - from - 1} {
			if d > 0 && from+d < to {
				cuts = append(cuts, from+d)
			}
		}
		seen := map[int64]bool{}
		for _, c := range cuts {
			if seen[c] || len(s.images) >= s.max {
				continue
			}
			seen[c] = true
			timg := &crashImage{dir: filepath.Join(s.base, fmt.Sprintf("i%04d", len(s.images))), event: name + ":torn", op: s.r.curOp, tornOf: rel, cut: c, pre: pre.pre}
			if err := verifkit.CopyDir(pre.dir, timg.dir); err != nil {
				continue
			}
			// the file as it was before the write, then the first bytes of what the write put there
			old, _ := os.ReadFile(filepath.Join(pre.dir, rel))
			buf := make([]byte, c)
			copy(buf, old)
			if int64(len(old)) < from {
				// nothing: sparse region cannot occur (appends are contiguous)
			}
			copy(buf[from:], final[from:c])
			if name == "fs.write.after" && int64(len(old)) > c {
				// in-place rewrite: the rest of the old file content is still there
				buf = append(buf, old[c:]...)
			}
			os.WriteFile(filepath.Join(timg.dir, rel), buf, 0644)
			if name == "fs.write.after" && int64(len(old)) > from {
				timg.affected = map[string]bool{}
				for _, rc := range verifkit.ScanBytes(old, 250, s.r.h.Cfg.BodyMax+1000) {
					if int64(rc.Offset) < c && int64(rc.Offset+rc.Size) > from {
						timg.affected[string(rc.Key)] = true
					}
				}
			}
			s.images = append(s.images, timg)
		}
	}
}

// ---------------------------------------------------------------------------
// recovery in a child process

type recoverJob struct {
	Cfg         Cfg      `json:"cfg"`
	Images      []string `json:"images"`
	Out         string   `json:"out"`
	PostGC      bool     `json:"postgc"`
	PostGCMerge bool     `json:"postgcmerge"`
}

type recKey struct {
	S    string `json:"s"` // miss | live | tomb | error
	Ver  int32  `json:"ver,omitempty"`
	Flag uint32 `json:"flag,omitempty"`
	Len  int    `json:"len,omitempty"`
	Sum  string `json:"sum,omitempty"`
	Err  string `json:"err,omitempty"`
}

type recResult struct {
	Image   int      `json:"image"`
	OpenErr string   `json:"openerr,omitempty"`
	Keys    []recKey `json:"keys,omitempty"`
	Usable  string   `json:"usable,omitempty"` // "" = a probe write/read after recovery worked
	// after the reads: one GC pass over everything below the head of every served bucket, then the keys again
	// (an operator restarts a crashed node and GC comes by again)
	GCErr   string   `json:"gcerr,omitempty"`
	KeysGC  []recKey `json:"keysgc,omitempty"`
	GCMoved int64    `json:"gcmoved,omitempty"`
}

func sumBytes(b []byte) string {
	h := sha1.Sum(b)
	return hex.EncodeToString(h[:8])
}

func init() {
	childModes["recover"] = func() int {
		var job recoverJob
		b, err := os.ReadFile(os.Getenv("VERIF_JOB"))
		if err != nil || json.Unmarshal(b, &job) != nil {
			return 96
		}
		start := 0
		fmt.Sscan(os.Getenv("VERIF_JOB_START"), &start)
		out, err := os.OpenFile(job.Out, os.O_APPEND|os.O_CREATE|os.O_WRONLY, 0644)
		if err != nil {
			return 95
		}
		defer out.Close()
		markDriver()
		driverGoid = -1 // FATAL must exit (code 3) in the child, never panic
		for i := start; i < len(job.Images); i++ {
			// announce which image is being opened: if the process dies, the parent knows the culprit
			fmt.Fprintf(out, "{\"image\":%d,\"begin\":true}\n", i)
			out.Sync()
			res := recoverOne(&job, i)
			line, _ := json.Marshal(res)
			out.Write(append(line, '\n'))
			out.Sync()
		}
		return 0
	}
}

// longSilenceImage: images recovered with the hint dumper's silence time in force during start-up.
func longSilenceImage(i int) bool { return i%3 != 0 }

func recoverOne(job *recoverJob, i int) (res recResult) {
	res.Image = i
	defer func() {
		if e := recover(); e != nil {
			res.OpenErr = fmt.Sprintf("panic: %v", panicToError(e))
		}
	}()
	home := job.Images[i]
	applyCfg(&job.Cfg, home)
	hooks.reset(false)
	// two images out of three are opened the way a production node opens them: with a hint "silence" time that
	// outlasts the start-up (5 s in production, an hour here; the wall clock is not owned, so only "much longer than
	// opening takes" is deterministic), which leaves every dump that is not forced to the dumper. The wait is
	// switched off again before the store is used (dump ops of the harness stay deterministic).
	if longSilenceImage(i) {
		SecsBeforeDump = 3600
	}
	s, err := openStore(&job.Cfg)
	SecsBeforeDump = -1
	if err != nil {
		res.OpenErr = err.Error()
		return
	}
	readAll := func() (out []recKey) {
		for _, key := range job.Cfg.Keys {
			p, _, err := s.Get(newKI(key), false)
			switch {
			case err != nil:
				out = append(out, recKey{S: "error", Err: err.Error()})
			case p == nil:
				out = append(out, recKey{S: "miss"})
			case p.Ver < 0:
				out = append(out, recKey{S: "tomb", Ver: p.Ver})
			default:
				out = append(out, recKey{S: "live", Ver: p.Ver, Flag: p.Flag, Len: len(p.Body), Sum: sumBytes(p.Body)})
			}
			freePayload(p)
		}
		return
	}
	res.Keys = readAll()
	// the store must be usable after recovery: a new write goes to a new file and reads back
	probe := []byte("verif-probe-key")
	val := []byte("probe-value")
	if err := s.Set(newKI(probe), newPayload(val, 7, 0, 12345)); err != nil {
		res.Usable = "set after recovery: " + err.Error()
	} else if p, _, err := s.Get(newKI(probe), false); err != nil || p == nil || !bytes.Equal(p.Body, val) {
		res.Usable = fmt.Sprintf("get after recovery: %v %v", p, err)
	} else {
		freePayload(p)
	}
	s.flushdatas(true)
	if job.PostGC {
		for _, bkt := range s.buckets {
			if bkt.State != BUCKET_STAT_READY {
				continue
			}
			begin, end, err := bkt.gcCheckRange(0, -1, 0)
			if err != nil {
				continue // nothing below the head
			}
			s.gcMgr.gc(bkt, begin, end, job.PostGCMerge)
			if n := len(bkt.GCHistory); n > 0 {
				if e := bkt.GCHistory[n-1].Err; e != nil {
					res.GCErr = e.Error()
				}
				res.GCMoved += bkt.GCHistory[n-1].NumBefore - bkt.GCHistory[n-1].NumReleased
			}
		}
		res.KeysGC = readAll()
	}
	discardStore(s)
	return
}

// recoverImages runs the child until every image has a result. Images during which the child died get OpenErr.
func recoverImages(cfg *Cfg, images []string, work string, postGC, postGCMerge bool) ([]recResult, error) {
	job := recoverJob{Cfg: *cfg, Images: images, Out: filepath.Join(work, "results.jsonl"), PostGC: postGC, PostGCMerge: postGCMerge}
	os.Remove(job.Out)
	jb, _ := json.Marshal(job)
	jobPath := filepath.Join(work, "job.json")
	if err := os.WriteFile(jobPath, jb, 0644); err != nil {
		return nil, infraf("%v", err)
	}
	results := make([]recResult, len(images))
	done := make([]bool, len(images))
	start := 0
	for attempts := 0; start < len(images) && attempts < len(images)+2; attempts++ {
		cmd := exec.Command(os.Args[0])
		cmd.Env = append(os.Environ(), "VERIF_CHILD=recover", "VERIF_JOB="+jobPath, fmt.Sprintf("VERIF_JOB_START=%d", start), "VERIF_STATS=")
		var errb bytes.Buffer
		cmd.Stderr = &errb
		cmd.Stdout = &errb
		runErr := cmd.Run()
		f, err := os.Open(job.Out)
		if err != nil {
			return nil, infraf("child produced no output: %v %s", runErr, errb.String())
		}
		sc := bufio.NewScanner(f)
		sc.Buffer(make([]byte, 1<<20), 16<<20)
		begun := -1
		for sc.Scan() {
			var m map[string]json.RawMessage
			if json.Unmarshal(sc.Bytes(), &m) != nil {
				continue
			}
			if _, isBegin := m["begin"]; isBegin {
				fmt.Sscan(string(m["image"]), &begun)
				continue
			}
			var r recResult
			if json.Unmarshal(sc.Bytes(), &r) == nil {
				results[r.Image] = r
				done[r.Image] = true
			}
		}
		f.Close()
		next := start
		for next < len(images) && done[next] {
			next++
		}
		if next < len(images) {
			if runErr == nil {
				return nil, infraf("child exited cleanly without finishing image %d", next)
			}
			// the child died while opening image `next` (FATAL -> exit 3, or a crash)
			msg := lastLines(errb.String(), 3)
			results[next] = recResult{Image: next, OpenErr: fmt.Sprintf("process exited (%v): %s", runErr, msg)}
			done[next] = true
			next++
		}
		start = next
	}
	return results, nil
}

func lastLines(s string, n int) string {
	lines := strings.Split(strings.TrimSpace(s), "\n")
	if len(lines) > n {
		lines = lines[len(lines)-n:]
	}
	return strings.Join(lines, " | ")
}

// ---------------------------------------------------------------------------
// oracle

type durable struct {
	rec   verifkit.ScanRec
	found bool
}

// durableState computes, per key, the newest complete record in the image's data files, and whether a data file
// ends in a partial record (torn).
func durableState(cfg *Cfg, imageDir string) (map[string]durable, bool, error) {
	out := map[string]durable{}
	torn := false
	var files []string
	filepath.Walk(imageDir, func(p string, info os.FileInfo, err error) error {
		if err == nil && !info.IsDir() && strings.HasSuffix(p, ".data") {
			files = append(files, p)
		}
		return nil
	})
	sort.Strings(files) // per bucket directory, names sort in chunk order
	for _, f := range files {
		b, err := os.ReadFile(f)
		if err != nil {
			return nil, false, err
		}
		recs := verifkit.ScanBytes(b, 250, cfg.BodyMax+1000)
		end := uint32(0)
		for _, rc := range recs {
			out[string(rc.Key)] = durable{rc, true}
			if e := rc.Offset + rc.Size; e > end {
				end = e
			}
		}
		if len(b)%256 != 0 {
			torn = true
		}
		// bytes after the last complete record that are not all zero padding: a partial record
		if int(end) < len(b) {
			for _, x := range b[end:] {
				if x != 0 {
					torn = true
					break
				}
			}
			if len(recs) == 0 && len(b) > 0 {
				torn = true
			}
		}
		// a complete last record whose padding is cut
		if n := len(recs); n > 0 {
			last := recs[n-1]
			if int(last.Offset+last.Size) > len(b) {
				torn = true
			}
		}
	}
	return out, torn, nil
}

// checkRecovered compares what the child read with the durable state of the image.
// pre: optional pre-GC model (C07): if set, every key must read exactly its pre-GC state.
func checkRecovered(r *histRunner, img *crashImage, res *recResult, st *crashStats) error {
	cfg := &r.h.Cfg
	if !img.durDone {
		return infraf("image %s: durable state was not scanned before recovery", filepath.Base(img.dir))
	}
	dur, torn := img.dur, img.durTorn
	desc := fmt.Sprintf("image %s taken at %s during op %d", filepath.Base(img.dir), img.event, img.op)
	if img.tornOf != "" {
		desc += fmt.Sprintf(" (torn variant: %s cut at byte %d)", img.tornOf, img.cut)
	}
	if torn {
		st.torn++
	}
	if img.pre != nil {
		torn = img.tornOf != "" // C07: only the torn variants of a relocated record may refuse to start
	}
	if res.OpenErr != "" {
		st.refused++
		if !torn {
			return fmt.Errorf("%s: the store refuses to start although no data file ends in a partial record: %s", desc, res.OpenErr)
		}
		if !strings.Contains(res.OpenErr, "FATAL") && !strings.Contains(res.OpenErr, "error") && !strings.Contains(res.OpenErr, "fail") && !strings.Contains(res.OpenErr, "align") {
			return fmt.Errorf("%s: refusal to start without an explicit error: %s", desc, res.OpenErr)
		}
		return nil
	}
	if len(res.Keys) != len(cfg.Keys) {
		return infraf("%s: child returned %d keys", desc, len(res.Keys))
	}
	if img.pre != nil {
		return checkRecoveredGC(r, img, res, st, desc)
	}
	for k, key := range cfg.Keys {
		got := res.Keys[k]
		d := dur[string(key)]
		_, served := 0, true
		if cfg.NumBucket > 1 {
			served = cfg.served(refBucketOf(key, cfg.depth()))
		}
		if !served {
			continue
		}
		if got.S == "error" {
			if verifkit.Known("C06-hint-ahead-of-data") && hintAheadOfData(img.dir) {
				st.excluded["C06-hint-ahead-of-data"]++
				continue
			}
			return fmt.Errorf("%s: Get(%q) after recovery returned error %q (durable record: %s)", desc, key, got.Err, describeDurable(d))
		}
		if !d.found || d.rec.Ver < 0 {
			if got.S == "live" {
				return fmt.Errorf("%s: Get(%q) after recovery returned a live value (ver %d, %d bytes) but the data files hold %s", desc, key, got.Ver, got.Len, describeDurable(d))
			}
			continue
		}
		val, err := storedValue(&d.rec)
		if err != nil {
			return infraf("decompress durable record: %v", err)
		}
		if got.S != "live" {
			return fmt.Errorf("%s: Get(%q) after recovery = %s, but a complete record of it is durable: %s", desc, key, got.S, describeDurable(d))
		}
		if got.Len != len(val) || got.Sum != sumBytes(val) || got.Flag != d.rec.Flag&^FLAG_COMPRESS {
			// not the newest durable record: older, torn or foreign
			return fmt.Errorf("%s: Get(%q) after recovery returned (ver %d flag %#x len %d sum %s), the newest durable record is %s (sum %s)", desc, key, got.Ver, got.Flag, got.Len, got.Sum, describeDurable(d), sumBytes(val))
		}
	}
	if res.Usable != "" {
		return fmt.Errorf("%s: store not usable after recovery: %s", desc, res.Usable)
	}
	return checkPostGC(cfg, res, st, desc, nil)
}

// checkPostGC: a GC pass on the recovered store changes no read (the probe write went to a new head file).
func checkPostGC(cfg *Cfg, res *recResult, st *crashStats, desc string, skip map[string]bool) error {
	if res.KeysGC == nil {
		return nil
	}
	if res.GCErr != "" {
		return fmt.Errorf("%s: a GC pass on the recovered store ended with error %s", desc, res.GCErr)
	}
	st.postGC++
	if res.GCMoved > 0 {
		st.postGCMoved++
	}
	for k, key := range cfg.Keys {
		a, b := res.Keys[k], res.KeysGC[k]
		if a.S == "error" || skip[string(key)] {
			continue // judged (or excluded by a known finding) above
		}
		same := a.S == b.S && a.Len == b.Len && a.Sum == b.Sum && a.Flag == b.Flag
		if a.S == "tomb" && b.S == "miss" || a.S == "miss" && b.S == "tomb" {
			same = true // a pass from file 0 may drop a tombstone
		}
		if !same {
			return fmt.Errorf("%s: key %q read %s (ver %d, len %d, sum %s) after recovery and %s (ver %d, len %d, sum %s %s) after a GC pass on the recovered store", desc, key, a.S, a.Ver, a.Len, a.Sum, b.S, b.Ver, b.Len, b.Sum, b.Err)
		}
	}
	return nil
}

// checkRecoveredGC (C07): every key reads exactly the value, flags and liveness it had before GC started.
func checkRecoveredGC(r *histRunner, img *crashImage, res *recResult, st *crashStats, desc string) error {
	cfg := &r.h.Cfg
	for k, key := range cfg.Keys {
		got := res.Keys[k]
		m := img.pre[k]
		if cfg.NumBucket > 1 && !cfg.served(refBucketOf(key, cfg.depth())) {
			continue
		}
		if img.gcInfo != "" {
			desc2 := desc + " [" + img.gcInfo + "]"
			_ = desc2
		}
		if got.S == "error" {
			return fmt.Errorf("%s: Get(%q) after recovery returned error %q; before GC: %s", desc, key, got.Err, m.describe())
		}
		if img.affected[string(key)] && verifkit.Known("C07-torn-inplace") && got.S != "error" {
			// known finding: a relocated record partially written over its own (or a neighbour's not yet relocated) source:
			// both copies of the affected keys may be gone; recovery then serves an older version or a miss
			st.excluded["C07-torn-inplace"]++
			continue
		}
		switch m.State {
		case stLive:
			if got.S != "live" {
				return fmt.Errorf("%s: key %q reads as %s after recovery; before GC it was %s", desc, key, got.S, m.describe())
			}
			if got.Len != len(m.Val) || got.Sum != sumBytes(m.Val) || got.Flag != m.Flag {
				return fmt.Errorf("%s: key %q reads (ver %d flag %#x len %d) after recovery; before GC it was %s: the key reverted to another version", desc, key, got.Ver, got.Flag, got.Len, m.describe())
			}
		default:
			if got.S == "live" {
				return fmt.Errorf("%s: key %q reads a live value (ver %d, %d bytes) after recovery; before GC it was %s: a deleted/unknown key reappeared", desc, key, got.Ver, got.Len, m.describe())
			}
		}
	}
	if res.Usable != "" {
		return fmt.Errorf("%s: store not usable after recovery: %s", desc, res.Usable)
	}
	var skip map[string]bool
	if verifkit.Known("C07-torn-inplace") {
		skip = img.affected
	}
	return checkPostGC(cfg, res, st, desc, skip)
}

func refBucketOf(key []byte, depth int) int {
	if depth == 0 {
		return 0
	}
	return int(getKeyHash(key) >> uint(64-4*depth))
}

func describeDurable(d durable) string {
	if !d.found {
		return "no record"
	}
	return fmt.Sprintf("ver %d flag %#x %d stored bytes at offset %d", d.rec.Ver, d.rec.Flag, len(d.rec.Body), d.rec.Offset)
}

// hintAheadOfData: the image contains a hint file whose recorded data size exceeds the size of its data file.
func hintAheadOfData(dir string) bool {
	ahead := false
	filepath.Walk(dir, func(p string, info os.FileInfo, err error) error {
		if err != nil || info.IsDir() || !strings.HasSuffix(p, ".idx.s") {
			return nil
		}
		b, err := os.ReadFile(p)
		if err != nil || len(b) < 16 {
			return nil
		}
		datasize := int64(uint32(b[12]) | uint32(b[13])<<8 | uint32(b[14])<<16 | uint32(b[15])<<24)
		name := filepath.Base(p)
		data := filepath.Join(filepath.Dir(p), name[:3]+".data")
		st, err := os.Stat(data)
		sz := int64(0)
		if err == nil {
			sz = st.Size()
		}
		if datasize > sz {
			ahead = true
		}
		return nil
	})
	return ahead
}

type crashStats struct {
	images      int
	torn        int
	refused     int
	postGC      int
	postGCMoved int
	excluded    map[string]int
}

// ---------------------------------------------------------------------------
// C06 check function

type crashCheck struct {
	property, name string
	gcOnly         bool
	maxImages      int // 0 = default budget
	profile        func() *genProfile
	postGen        func(t *rapid.T, h *History) // optional adjustments of the generated case
}

func (cc *crashCheck) runCase(h *History) (r *histRunner, st *crashStats, err error) {
	st = &crashStats{excluded: map[string]int{}}
	var snap *snapshotter
	o := runOpts{keepStore: false, noCloseAtEnd: false}
	o.hookExtra = func(r *histRunner) func(string, ...interface{}) {
		snap = newSnapshotter(r, cc.gcOnly)
		if cc.maxImages > 0 {
			snap.max = cc.maxImages
			snap.noTorn = true
		}
		return snap.handle
	}
	if cc.gcOnly {
		o.beforeGC = func(r *histRunner) { r.preGC = r.cloneModel() }
	}
	r = newRunner(h, o)
	markDriver()
	func() {
		defer func() {
			if e := recover(); e != nil {
				err = panicToError(e)
			}
		}()
		err = r.run()
	}()
	defer func() {
		if snap != nil && snap.base != "" && os.Getenv("VERIF_KEEP_IMAGES") == "" {
			os.RemoveAll(snap.base)
		}
	}()
	if err != nil {
		if isInfra(err) {
			return r, st, err
		}
		return r, st, fmt.Errorf("the history itself failed (before any crash was injected): %v", err)
	}
	if snap == nil || len(snap.images) == 0 {
		return r, st, nil
	}
	hooks.mu.Lock()
	hooks.extra = nil
	hooks.mu.Unlock()
	dirs := make([]string, len(snap.images))
	for i, img := range snap.images {
		dirs[i] = img.dir
	}
	// the oracle's view of each image is taken before the child touches it
	for _, img := range snap.images {
		d, torn, e := durableState(&h.Cfg, img.dir)
		if e != nil {
			return r, st, infraf("scan image: %v", e)
		}
		img.dur, img.durTorn, img.durDone = d, torn, true
	}
	// the recovered store is also collected once (merge step on for histories with an even number of ops: a cheap,
	// case-determined choice) and read again
	results, e := recoverImages(&h.Cfg, dirs, snap.base, true, len(h.Ops)%2 == 0)
	if e != nil {
		return r, st, e
	}
	st.images = len(snap.images)
	if snap.dropped > 0 {
		r.label("image_budget_hit")
	}
	for i, img := range snap.images {
		if e := checkRecovered(r, img, &results[i], st); e != nil {
			return r, st, e
		}
		if img.tornOf != "" {
			r.label("torn_variant")
		}
		if strings.HasPrefix(img.event, "fs.rename") {
			r.label("kill_at_rename")
		}
		if strings.HasPrefix(img.event, "gc.") {
			r.label("kill_in_gc")
		}
	}
	if st.refused > 0 {
		r.label("refused_to_start")
	}
	return r, st, nil
}

func (cc *crashCheck) register() {
	replayers[cc.name] = func(raw json.RawMessage) error {
		h := &History{}
		if err := json.Unmarshal(raw, h); err != nil {
			return err
		}
		_, _, err := cc.runCase(h)
		return err
	}
}

func (cc *crashCheck) check(t *testing.T) {
	stats := verifkit.StatsFor(cc.name)
	defer verifkit.ClearCurrent()
	rapid.Check(t, func(t *rapid.T) {
		p := cc.profile()
		h := &History{}
		h.Cfg = genCfg(t, p)
		h.Ops = genOps(t, &h.Cfg, p)
		if cc.postGen != nil {
			cc.postGen(t, h)
		}
		verifkit.SetCurrent(cc.property, cc.name, h)
		r, st, err := cc.runCase(h)
		if err != nil && isInfra(err) {
			t.Fatalf("%v", err)
		}
		for id, n := range st.excluded {
			for i := 0; i < n; i++ {
				stats.Exclude(id)
			}
		}
		labels := r.sortedLabels()
		stats.Add("images", int64(st.images))
		stats.Add("images_opened_with_hint_silence_time", int64(st.images-(st.images+2)/3))
		stats.Add("images_torn", int64(st.torn))
		stats.Add("images_refused", int64(st.refused))
		stats.Add("images_collected_after_recovery", int64(st.postGC))
		stats.Add("images_collected_after_recovery_with_relocation", int64(st.postGCMoved))
		nontrivial := err == nil && st.images >= 5 && (r.labels["overwrite"] || r.labels["delete"])
		if cc.gcOnly {
			nontrivial = err == nil && r.labels["kill_in_gc"] && r.labels["gc_released"]
		}
		stats.Case(labels, nontrivial, canon(h), map[string]interface{}{"history": h, "images": st.images, "torn": st.torn, "refused": st.refused})
		if err != nil {
			verifkit.Fail(cc.property, cc.name, h, err.Error())
			t.Fatalf("%v", err)
		}
	})
}

var c07Crash = &crashCheck{
	property: "C07", name: "TestVerif_C07_KillInGC", gcOnly: true,
	profile: func() *genProfile {
		f := false
		p := &genProfile{minOps: 8, maxOps: 40, gc: true, tinyFiles: true, maxKeys: 8, buckets: []int{1}, checkVHash: &f, maxHeight: 3,
			kinds: []string{"set", "set", "set", "set", "set", "set", "delete", "delete", "rotate", "rotate", "flush", "gc", "gc", "incr", "get", "dumphints"}}
		if thorough() {
			p.maxOps = 70
		}
		return p
	},
	// a third of the histories are wrapped into the situation of C03's resurrection template (a key in a short first file,
	// deleted later, the tree rebuilt, a pass starting above file 0): "no deleted key reappears" is then at stake at every
	// boundary of that pass
	postGen: func(t *rapid.T, h *History) { c03GC.postGen(t, h) },
}

func TestVerif_C07_KillInGC(t *testing.T) { c07Crash.check(t) }

func init() { c07Crash.register() }

var c06Crash = &crashCheck{
	property: "C06", name: "TestVerif_C06_Kill",
	profile: func() *genProfile {
		f := false
		p := &genProfile{minOps: 3, maxOps: 25, reopen: true, park: true, crash: true, tinyFiles: true, maxKeys: 8, buckets: []int{1}, checkVHash: &f, maxHeight: 3}
		if thorough() {
			p.maxOps = 50
		}
		return p
	},
}

func TestVerif_C06_Kill(t *testing.T) { c06Crash.check(t) }

func init() { c06Crash.register() }

// Chains of kills: short phases of writes / flushes / hint dumps separated by kills at operation boundaries (the
// history continues on the recovered store), so that what one recovery leaves behind (stale hint splits, half
// filled data files, reused file ids) meets the next kill. Every image of every phase is judged as in C06_Kill.
var c06Chain = &crashCheck{
	property: "C06", name: "TestVerif_C06_KillChain", maxImages: 60,
	profile: func() *genProfile {
		f := false
		p := &genProfile{minOps: 6, maxOps: 22, crash: true, tinyFiles: true, maxKeys: 5, buckets: []int{1}, checkVHash: &f, maxHeight: 3,
			kinds: []string{"set", "set", "set", "set", "set", "set", "set", "delete", "dumphints", "dumphints", "flush", "flush", "rotate", "crash", "get"},
			postCfg: func(t *rapid.T, c *Cfg) {
				c.SplitCap = rapid.SampledFrom([]int64{2, 2, 3, 5}).Draw(t, "splitcap_chain")
			}}
		if thorough() {
			p.maxOps = 40
		}
		return p
	},
}

func TestVerif_C06_KillChain(t *testing.T) { c06Chain.check(t) }

func init() { c06Chain.register() }
