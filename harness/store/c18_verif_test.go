package store

import (
	"bytes"
	"fmt"
	"sort"
	"testing"

	"github.com/douban/gobeansdb/verifkit"
)

// C18: GC actually reclaims - no superseded record survives in the collected range.

func dataName(id int) string { return fmt.Sprintf("%03d.data", id) }

// gcInventorySafety (C17/C18): a pass changes no existing file outside [begin,end] except one earlier destination,
// whose old content stays byte-identical; the file receiving appends and everything above the range is untouched.
func gcInventorySafety(r *histRunner, bkt *Bucket, begin, end int, before *gcBefore) (int, error) {
	// files outside [begin,end]: untouched, except one earlier destination whose old prefix is byte-identical
	changedEarlier := -1
	for name, raw := range before.raw {
		var id int
		fmt.Sscanf(name, "%03d.data", &id)
		if id >= begin && id <= end {
			continue
		}
		now, _ := readFileOrNil(bkt.Home + "/" + name)
		if bytes.Equal(now, raw) {
			continue
		}
		if id > end {
			return -1, fmt.Errorf("GC [%d,%d] changed file %s outside (above) its range (head was %d)", begin, end, name, before.head)
		}
		if changedEarlier >= 0 {
			return -1, fmt.Errorf("GC [%d,%d] changed two files below its range: %s and %s", begin, end, dataName(changedEarlier), name)
		}
		changedEarlier = id
		if len(now) < len(raw) || !bytes.Equal(now[:len(raw)], raw) {
			return -1, fmt.Errorf("GC [%d,%d] appended to earlier file %s but its old content (%d bytes) is not preserved byte for byte (now %d bytes)", begin, end, name, len(raw), len(now))
		}
		r.label("dst_earlier")
	}
	return changedEarlier, nil
}

func c18AfterGC(r *histRunner, bid, begin, end int, merge bool, before *gcBefore) error {
	bkt := r.store.buckets[bid]
	cfg := &r.h.Cfg
	after := r.scanBucket(bkt)
	keyIdx := map[string]int{}
	for k, key := range cfg.Keys {
		keyIdx[string(key)] = k
	}
	st := &bkt.GCHistory[len(bkt.GCHistory)-1]

	changedEarlier, err := gcInventorySafety(r, bkt, begin, end, before)
	if err != nil {
		return err
	}
	// files created by the pass: only inside the range or in empty slots below it (destination spilling over from the
	// earlier file into the following free file ids); never above the range
	createdBelow := map[int]bool{}
	for name := range after {
		if _, ok := before.raw[name]; !ok {
			var id int
			fmt.Sscanf(name, "%03d.data", &id)
			if id > end {
				return fmt.Errorf("GC [%d,%d] created file %s above its range (head was %d)", begin, end, name, before.head)
			}
			if id < begin {
				createdBelow[id] = true
				r.label("dst_created_below")
			}
		}
	}
	// records held by the collected range after the pass (+ the appended part of the earlier destination)
	type held struct {
		file string
		rec  verifkit.ScanRec
	}
	var all []held
	for name, recs := range after {
		var id int
		fmt.Sscanf(name, "%03d.data", &id)
		switch {
		case id >= begin && id <= end:
			for _, rc := range recs {
				all = append(all, held{name, rc})
			}
		case id == changedEarlier:
			old := uint32(len(before.raw[name]))
			for _, rc := range recs {
				if rc.Offset >= old {
					all = append(all, held{name, rc})
				}
			}
		case createdBelow[id]:
			for _, rc := range recs {
				all = append(all, held{name, rc})
			}
		}
	}
	seen := map[string]string{}
	tombKept := false
	for _, h := range all {
		k, ok := keyIdx[string(h.rec.Key)]
		if !ok {
			return fmt.Errorf("file %s holds a record of unknown key %q after GC", h.file, h.rec.Key)
		}
		m := r.model[k]
		if h.rec.Ver < 0 && begin > 0 && m.State == stDeleted && !before.treeHad[k] {
			// the documented reservation envelope: a pass that does not start at file 0 keeps every tombstone the tree does
			// not hold (it cannot know whether an older value survives below the range) - also a superseded one
			tombKept = true
			r.label("tombstone_reserved")
			continue
		}
		if prev, dup := seen[string(h.rec.Key)]; dup {
			return fmt.Errorf("key %q has two records in the collected range after GC [%d,%d] (%s and %s@%d): a superseded version survived", h.rec.Key, begin, end, prev, h.file, h.rec.Offset)
		}
		seen[string(h.rec.Key)] = fmt.Sprintf("%s@%d", h.file, h.rec.Offset)
		if h.rec.Ver < 0 {
			if m.State != stDeleted {
				return fmt.Errorf("file %s@%d holds a tombstone (ver %d) of key %q after GC [%d,%d], but the key is %s", h.file, h.rec.Offset, h.rec.Ver, h.rec.Key, begin, end, m.describe())
			}
			if m.DataVer != 0 && -h.rec.Ver != m.DataVer {
				return fmt.Errorf("file %s@%d holds tombstone ver %d of key %q, the current one is -%d", h.file, h.rec.Offset, h.rec.Ver, h.rec.Key, m.DataVer)
			}
			if begin == 0 && !before.treeHad[k] {
				return fmt.Errorf("tombstone of %q (not in the tree: rebuilt since the delete) survived a GC pass that started at file 0", h.rec.Key)
			}
			tombKept = true
			continue
		}
		if m.State != stLive {
			return fmt.Errorf("file %s@%d holds a live record (ver %d) of key %q after GC [%d,%d], but the key is %s", h.file, h.rec.Offset, h.rec.Ver, h.rec.Key, begin, end, m.describe())
		}
		val, err := storedValue(&h.rec)
		if err != nil {
			return fmt.Errorf("file %s@%d: record of %q cannot be decompressed: %v", h.file, h.rec.Offset, h.rec.Key, err)
		}
		if !bytes.Equal(val, m.Val) || (m.DataVer != 0 && h.rec.Ver != m.DataVer) {
			return fmt.Errorf("file %s@%d holds a superseded record of key %q after GC [%d,%d]: ver %d value %s; current: data ver %d %s", h.file, h.rec.Offset, h.rec.Key, begin, end, h.rec.Ver, short(val), m.DataVer, m.describe())
		}
	}
	if tombKept {
		r.label("tombstone_kept")
	}
	// counters vs scanner
	nBefore := int64(0)
	for name, recs := range before.recs {
		var id int
		fmt.Sscanf(name, "%03d.data", &id)
		if id >= begin && id <= end {
			nBefore += int64(len(recs))
		}
	}
	if st.NumBefore != nBefore {
		return fmt.Errorf("GC [%d,%d] reports %d records before, the independent scan found %d", begin, end, st.NumBefore, nBefore)
	}
	if kept := st.NumBefore - st.NumReleased; kept != int64(len(all)) {
		return fmt.Errorf("GC [%d,%d] reports %d kept records (%d before, %d released), the independent scan finds %d in the range afterwards", begin, end, kept, st.NumBefore, st.NumReleased, len(all))
	}
	if st.NumReleased > 0 && len(all) > 0 {
		r.label("reclaimed_and_kept")
	}
	// running the same pass again releases nothing and keeps the multiset of records
	multiset := func() []string {
		var out []string
		for name, recs := range r.scanBucket(bkt) {
			var id int
			fmt.Sscanf(name, "%03d.data", &id)
			if id > end {
				continue
			}
			for _, rc := range recs {
				if id < begin && id != changedEarlier && !createdBelow[id] {
					continue
				}
				if id == changedEarlier && rc.Offset < uint32(len(before.raw[name])) {
					continue
				}
				out = append(out, fmt.Sprintf("%q/%d/%x", rc.Key, rc.Ver, verifkit.CRC32(rc.Body)))
			}
		}
		sort.Strings(out)
		return out
	}
	m1 := multiset()
	r.store.gcMgr.gc(bkt, begin, end, merge)
	st2 := &bkt.GCHistory[len(bkt.GCHistory)-1]
	if st2.Err != nil {
		return fmt.Errorf("second GC pass [%d,%d] failed: %v", begin, end, st2.Err)
	}
	if st2.NumReleased != 0 || st2.SizeReleased != 0 {
		return fmt.Errorf("running GC [%d,%d] again released %d records / %d bytes (first pass: %d records)", begin, end, st2.NumReleased, st2.SizeReleased, st.NumReleased)
	}
	// (the second pass may move records into a destination that still has room: compare everything up to end)
	all2 := []string{}
	for name, recs := range r.scanBucket(bkt) {
		var id int
		fmt.Sscanf(name, "%03d.data", &id)
		if id > end {
			continue
		}
		for _, rc := range recs {
			if raw, ok := before.raw[name]; ok && id < begin && rc.Offset < uint32(len(raw)) {
				continue
			}
			all2 = append(all2, fmt.Sprintf("%q/%d/%x", rc.Key, rc.Ver, verifkit.CRC32(rc.Body)))
		}
	}
	sort.Strings(all2)
	if fmt.Sprint(m1) != fmt.Sprint(all2) {
		return fmt.Errorf("second GC pass [%d,%d] changed the set of records held by range and destination:\nbefore %v\nafter  %v", begin, end, m1, all2)
	}
	r.label("second_pass_idle")
	return nil
}

func readFileOrNil(p string) ([]byte, error) {
	b, err := osReadFile(p)
	if err != nil {
		return nil, err
	}
	return b, nil
}

var c18Reclaim = &histCheck{
	property: "C18",
	name:     "TestVerif_C18_Reclaim",
	profile: func() *genProfile {
		p := &genProfile{minOps: 8, maxOps: 60, reopen: true, gc: true, tinyFiles: true, maxKeys: 10}
		if thorough() {
			p.maxOps = 140
		}
		return p
	},
	opts:       func() runOpts { return runOpts{afterGC: c18AfterGC} },
	nontrivial: func(r *histRunner) bool { return r.labels["reclaimed_and_kept"] && r.labels["second_pass_idle"] },
}

func TestVerif_C18_Reclaim(t *testing.T) { c18Reclaim.check(t) }

func init() { c18Reclaim.register() }
