package store

import "testing"

// C03: GC never changes what any key reads (also after restart with rebuilt indexes, repeated GC, further writes).
var c03GC = &histCheck{
	property: "C03",
	name:     "TestVerif_C03_GC",
	profile: func() *genProfile {
		p := &genProfile{minOps: 6, maxOps: 70, reopen: true, gc: true, park: true, tinyFiles: true, maxKeys: 12}
		if thorough() {
			p.maxOps = 150
		}
		return p
	},
	opts: func() runOpts { return runOpts{} },
	nontrivial: func(r *histRunner) bool {
		return r.labels["gc_released"] && r.labels["gc_kept"]
	},
}

func TestVerif_C03_GC(t *testing.T) { c03GC.check(t) }

func init() { c03GC.register() }
