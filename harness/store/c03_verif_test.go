package store

import (
	"testing"

	"github.com/douban/gobeansdb/verifkit"
	"pgregory.net/rapid"
)

// C03: GC never changes what any key reads (also after restart with rebuilt indexes, repeated GC, further writes).
var c03GC = &histCheck{
	property: "C03",
	name:     "TestVerif_C03_GC",
	profile: func() *genProfile {
		p := &genProfile{minOps: 6, maxOps: 70, reopen: true, gc: true, park: true, tinyFiles: true, maxKeys: 12}
		if thorough() {
			p.maxOps = 150
		}
		return p
	},
	// "an older value in a file outside the collected range can never come back to life": in a third of the cases the
	// generated history is wrapped into that situation - a key written into a short first file, deleted later, the tree
	// rebuilt (it forgets the tombstone), a pass that starts above file 0, and a restart with rebuilt indexes
	postGen: func(t *rapid.T, h *History) {
		if len(h.Ops) < 4 || rapid.IntRange(0, 2).Draw(t, "resurrection_template") != 0 {
			return
		}
		nk := len(h.Cfg.Keys)
		k0 := rapid.IntRange(0, nk-1).Draw(t, "tk")
		k1 := rapid.IntRange(0, nk-1).Draw(t, "tk_other")
		a := rapid.IntRange(0, len(h.Ops)/2).Draw(t, "ta")
		b := rapid.IntRange(a, len(h.Ops)).Draw(t, "tb")
		var ops []Op
		ops = append(ops, Op{Kind: "set", K: k0, V: verifkit.ValSpec{Class: "text", Size: rapid.IntRange(1, 200).Draw(t, "tsize"), Salt: 3}})
		ops = append(ops, Op{Kind: "rotate", K: k1, V: verifkit.ValSpec{Salt: 5}})
		ops = append(ops, h.Ops[:a]...)
		ops = append(ops, Op{Kind: "delete", K: k0})
		ops = append(ops, h.Ops[a:b]...)
		ops = append(ops, Op{Kind: "rotate", K: k1, V: verifkit.ValSpec{Salt: 6}})
		ops = append(ops, Op{Kind: "reopen", Mask: rapid.SampledFrom([]string{"all", "hash", "all"}).Draw(t, "tmask")})
		ops = append(ops, Op{Kind: "gc", Begin: rapid.SampledFrom([]int{1, 1, 2, 3}).Draw(t, "tbegin"), End: -1, Merge: rapid.Bool().Draw(t, "tmerge"), Mask: "all"})
		ops = append(ops, h.Ops[b:]...)
		h.Ops = ops
	},
	opts: func() runOpts { return runOpts{} },
	nontrivial: func(r *histRunner) bool {
		return r.labels["gc_released"] && r.labels["gc_kept"]
	},
}

func TestVerif_C03_GC(t *testing.T) { c03GC.check(t) }

func init() { c03GC.register() }
