#!/usr/bin/env python3
"""Confirms a seeded change left by a sub-agent in a scratch worktree and runs checks against it.
usage: tools_seeded.py <name> <worktree> <property> <check-id> [<check-id>...] [--no-suite]
Writes /verif/seeded/<name>/{patch.diff, demo test, SEEDED.md, meta.json}."""
import json, os, shutil, subprocess, sys, time
ENV = dict(os.environ, GOFLAGS="-mod=mod", GOPROXY="off", GOSUMDB="off", GOTOOLCHAIN="local")
def sh(cmd, cwd=None, timeout=3000, env=None):
    r = subprocess.run(cmd, cwd=cwd, shell=True, capture_output=True, text=True, timeout=timeout, env=env or ENV)
    return r.returncode, (r.stdout + r.stderr)
name, wt, prop = sys.argv[1], sys.argv[2], sys.argv[3]
checks = [a for a in sys.argv[4:] if not a.startswith("--")]
suite = "--no-suite" not in sys.argv
out = "/verif/seeded/" + name
os.makedirs(out, exist_ok=True)
rc, patch = sh("git diff", cwd=wt)
assert patch.strip(), "no source change in worktree"
open(out + "/patch.diff", "w").write(patch)
demos = [l[3:] for l in sh("git status --short", cwd=wt)[1].splitlines() if l.startswith("??") and l.endswith("_test.go")]
for d in demos:
    shutil.copy(os.path.join(wt, d), os.path.join(out, os.path.basename(d) + ".txt"))
if os.path.exists(wt + "/SEEDED.md"):
    shutil.copy(wt + "/SEEDED.md", out + "/SEEDED.md")
prev = json.load(open(out + "/meta.json")) if os.path.exists(out + "/meta.json") else {}
meta = {"property": prop, "worktree_commit": sh("git rev-parse --short HEAD", cwd=wt)[1].strip(), "demo_files": demos, "ran": []}
base = "/tmp/test_gobeansdb_seed_" + name
os.makedirs(base, exist_ok=True)
tags = "-tags verif" if any("verifhook" in open(os.path.join(wt, d)).read() for d in demos) else ""
def demo():
    res = {}
    for d in demos:
        pkg = "./" + os.path.dirname(d)
        args = "-args -base " + base if os.path.dirname(d) == "store" else ""
        rc, o = sh("go test %s -vet=off -count=1 -run 'TestDemoSeeded' %s %s" % (tags, pkg, args), cwd=wt)
        res[d] = (rc, o[-800:])
    return res
rc, o = sh("go build ./...", cwd=wt)
meta["build_ok"] = rc == 0
r1 = demo()
meta["demo_with_change_fails"] = all(v[0] != 0 for v in r1.values())
meta["demo_with_change_output"] = {k: v[1][-400:] for k, v in r1.items()}
sh("git apply -R %s/patch.diff" % out, cwd=wt)
r0 = demo()
sh("git apply %s/patch.diff" % out, cwd=wt)
meta["demo_without_change_passes"] = all(v[0] == 0 for v in r0.values())
if suite:
    for d in demos:
        os.rename(os.path.join(wt, d), os.path.join(wt, d) + ".aside")
    os.makedirs(base, exist_ok=True)
    rc, o = sh("(go test -vet=off -count=1 -timeout 25m ./store -args -base %s; go test -vet=off -count=1 ./cmem ./loghub ./memcache ./quicklz ./utils ./gobeansdb) 2>&1 | grep -E '^(ok|FAIL|---|panic)'" % base, cwd=wt)
    for d in demos:
        os.rename(os.path.join(wt, d) + ".aside", os.path.join(wt, d))
    lines = o.splitlines()
    bad = [l for l in lines if (l.startswith("--- FAIL") and "TestConfig" not in l) or l.startswith("panic")]
    oks = [l for l in lines if l.startswith("ok")]
    meta["existing_suite_passes_with_change"] = not bad and len(oks) >= 6  # 6 packages ok + gobeansdb (TestConfig only)
    meta["existing_suite_output"] = lines
    meta["ran"].append("go test -vet=off -count=1 -timeout 25m ./... (with the change; only gobeansdb/TestConfig fails, as in the baseline)")
if not suite and "existing_suite_passes_with_change" in prev:
    meta["existing_suite_passes_with_change"] = prev["existing_suite_passes_with_change"]
    meta["existing_suite_output"] = prev.get("existing_suite_output")
    meta["ran"].append("go test (per package) with the change: confirmed in an earlier run of this script; only gobeansdb/TestConfig fails, as in the baseline")
    meta["checks_before_strengthening"] = prev.get("checks")
meta["ran"].append("demo test with the change (fails) and with the change reverted (passes)")
meta["checks"] = {}
for c in checks:
    t0 = time.time()
    rc, o = sh("python3 verif.py check %s --tier quick" % c, cwd="/verif", env=dict(os.environ, VERIF_REPO=wt, VERIF_SEED=os.environ.get("VERIF_SEED", "1")))
    viol = [l for l in o.splitlines() if l.startswith("VIOLATION")]
    firstfail = [l for l in o.splitlines() if "_verif_test.go" in l and ("failed after" in l or ": op " in l or "image " in l)]
    meta["checks"][c] = {"exit": rc, "violation_lines": viol, "wall_s": round(time.time() - t0, 1), "message": (firstfail[-1][:500] if firstfail else "")}
    meta["ran"].append("VERIF_REPO=<scratch worktree with the change> python3 verif.py check %s --tier quick -> exit %d" % (c, rc))
    # evidence of that run describes the mutated tree: restore nothing here, evidence is regenerated before committing
json.dump(meta, open(out + "/meta.json", "w"), indent=1)
print(json.dumps({k: meta[k] for k in meta if k not in ("existing_suite_output", "demo_with_change_output")}, indent=1))
