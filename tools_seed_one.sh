#!/bin/bash
# usage: tools_seed_one.sh <worktree> <name> <property> <check>...   (brings the scratch worktree to /repo's HEAD, then confirms + runs checks)
set -u
export GOFLAGS=-mod=mod GOPROXY=off GOSUMDB=off GOTOOLCHAIN=local
wt=$1; name=$2; prop=$3; shift 3
head=$(git -C /repo rev-parse HEAD)
if [ "$(git -C $wt rev-parse HEAD)" != "$head" ]; then
  # (no git stash: the stash is shared by all worktrees of a repository, concurrent lanes would pop each other's change)
  git -C $wt diff > /tmp/move_$name.patch && git -C $wt checkout -q -- . && git -C $wt checkout -q --detach $head && (git -C $wt apply /tmp/move_$name.patch || (git -C $wt apply --3way /tmp/move_$name.patch && git -C $wt reset -q)) || { echo "cannot move $wt to $head"; exit 3; }
fi
rm -f $wt/gobeansdb/config_test.yaml.tmp
cd /verif && python3 tools_seeded.py $name $wt $prop "$@" > /tmp/seed_$name.log 2>&1
echo "$name done: $(grep -E '"exit"|demo_with_change_fails|demo_without_change_passes|existing_suite_passes' /tmp/seed_$name.log | tr -d '\n ')"
rm -rf /tmp/test_gobeansdb_seed_$name
