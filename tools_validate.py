#!/usr/bin/env python3-vt
# validates MANIFEST.json and evidence files against the given schemas (tooling venv has jsonschema)
import json, sys, glob, jsonschema
m=json.load(open('/verif/MANIFEST.json'))
jsonschema.validate(m,json.load(open('/root/.vp/MANIFEST.schema.json')))
es=json.load(open('/root/.vp/EVIDENCE.schema.json'))
for f in sorted(glob.glob('/verif/evidence/*.json')):
    jsonschema.validate(json.load(open(f)),es)
claimed={c['property_id'] for c in m['checks']}; na={c['property_id'] for c in m.get('not_applicable',[])}
allp={json.loads(l)['id'] for l in open('/verif/properties.jsonl')}
assert claimed|na==allp and not (claimed&na), (claimed, na)
print("manifest ok; claimed:",sorted(claimed))
