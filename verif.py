#!/usr/bin/env python3
"""Driver of the gobeansdb verification harness (property-based testing / fuzzing).

  python3 verif.py check <ID> [--tier quick|thorough]   run one property check
  python3 verif.py replay <file>                         re-run a saved failing case
  python3 verif.py setup                                 warm the build cache (all harness binaries)

Exit codes of `check`: 0 = held on everything explored (KNOWN-FINDING lines possible),
1 = violation(s) found (one `VIOLATION property=<id> replay=<path>` line each),
2 = infrastructure problem / inconclusive (never a statement about the property).
"""
import concurrent.futures as cf
import hashlib
import json
import os
import shutil
import signal
import subprocess
import sys
import time

VERIF = os.path.dirname(os.path.abspath(__file__))
sys.path.insert(0, VERIF)
from checks import CHECKS  # noqa: E402

REPO = os.environ.get("VERIF_REPO", "/repo")
NCPU = int(os.environ.get("VERIF_JOBS", "16"))
GOENV = {
    "GOFLAGS": "-mod=mod", "GOPROXY": "off", "GOSUMDB": "off", "GOTOOLCHAIN": "local",
    "CGO_ENABLED": "1",
}
EXTRA_REQUIRE = """
require (
	github.com/anishathalye/porcupine v1.3.0
	pgregory.net/rapid v1.3.0
)
"""


def log(*a):
    print(*a, file=sys.stderr, flush=True)


def goenv(extra=None):
    e = dict(os.environ)
    e.update(GOENV)
    if extra:
        e.update(extra)
    return e


class Infra(Exception):
    pass


def make_work(tag):
    base = os.environ.get("VERIF_WORK")
    if not base:
        root = "/dev/shm" if os.path.isdir("/dev/shm") and os.access("/dev/shm", os.W_OK) else os.environ.get("TMPDIR", "/tmp")
        base = os.path.join(root, "verif-%s-%d" % (tag, os.getpid()))
    shutil.rmtree(base, ignore_errors=True)
    os.makedirs(base)
    return base


def prepare_tree(work):
    """Scratch copy of the repository's working tree + harness sources."""
    dst = os.path.join(work, "repo")
    r = subprocess.run(["rsync", "-a", "--delete", "--exclude", ".git", "--exclude", "*_test.go",
                        "--exclude", "testdata", REPO.rstrip("/") + "/", dst + "/"], capture_output=True, text=True)
    if r.returncode != 0:
        raise Infra("rsync failed: " + r.stderr)
    h = os.path.join(VERIF, "harness")
    for sub in os.listdir(h):
        src = os.path.join(h, sub)
        if not os.path.isdir(src) or sub == "gomod":
            continue
        os.makedirs(os.path.join(dst, sub), exist_ok=True)
        for root, dirs, files in os.walk(src):
            rel = os.path.relpath(root, src)
            os.makedirs(os.path.join(dst, sub, rel), exist_ok=True)
            for f in files:
                shutil.copy(os.path.join(root, f), os.path.join(dst, sub, rel, f))
    # go.mod / go.sum of the scratch module: the repository's own plus the harness requirements
    gm = open(os.path.join(REPO, "go.mod")).read()
    lines = []
    for l in gm.splitlines():
        if l.startswith("go "):
            l = "go 1.21"
        if l.startswith("toolchain "):
            continue
        lines.append(l)
    open(os.path.join(dst, "go.mod"), "w").write("\n".join(lines) + "\n" + EXTRA_REQUIRE)
    gs = open(os.path.join(REPO, "go.sum")).read() if os.path.exists(os.path.join(REPO, "go.sum")) else ""
    gs += open(os.path.join(h, "gomod", "extra.sum")).read()
    open(os.path.join(dst, "go.sum"), "w").write(gs)
    return dst


def build(work, tree, pkg, extra_flags=(), suffix=""):
    os.makedirs(os.path.join(work, "bin"), exist_ok=True)
    out = os.path.join(work, "bin", pkg.replace("/", "_") + suffix + ".test")
    cmd = ["go", "test", "-c", "-tags", "verif", "-vet=off", *extra_flags, "-o", out, "./" + pkg]
    t0 = time.time()
    r = subprocess.run(cmd, cwd=tree, env=goenv(), capture_output=True, text=True)
    if r.returncode != 0:
        raise Infra("build of %s failed:\n%s\n%s" % (pkg, r.stdout[-4000:], r.stderr[-4000:]))
    log("[build] %s%s in %.1fs" % (pkg, suffix, time.time() - t0))
    return out


def load_known():
    p = os.path.join(VERIF, "known_findings.json")
    if not os.path.exists(p):
        return []
    return json.load(open(p)).get("findings", [])


def seed_for(base, unit_idx, shard):
    return 1 + (base * 1000003 + unit_idx * 100003 + shard * 7919) % (2 ** 62)


def run_proc(cmd, cwd, env, timeout):
    """Run a process in its own group; returns (rc, output_tail, timed_out)."""
    t0 = time.time()
    p = subprocess.Popen(cmd, cwd=cwd, env=env, stdout=subprocess.PIPE, stderr=subprocess.STDOUT,
                         text=True, errors="replace", start_new_session=True)
    try:
        out, _ = p.communicate(timeout=timeout)
        return p.returncode, out, False, time.time() - t0
    except subprocess.TimeoutExpired:
        try:
            os.killpg(p.pid, signal.SIGKILL)
        except Exception:
            pass
        out, _ = p.communicate()
        return -9, out, True, time.time() - t0


def replay_once(binpath, tree, pkg, path, work, tag, known_ids, timeout=120, env_extra=None):
    rd = os.path.join(work, "run", "replay-" + tag)
    shutil.rmtree(rd, ignore_errors=True)
    os.makedirs(os.path.join(rd, "fail"))
    env = goenv({"VERIF_REPLAY": os.path.abspath(path), "VERIF_FAILDIR": os.path.join(rd, "fail"),
                 "VERIF_DBDIR": os.path.join(rd, "db"), "VERIF_KNOWN": ",".join(known_ids),
                 "VERIF_BIN": binpath, "VERIF_TIER": os.environ.get("VERIF_TIER_EFF", "quick")})
    if env_extra:
        env.update(env_extra)
    rc, out, to, _ = run_proc([binpath, "-test.run", "^TestVerifReplay$", "-test.timeout", "%ds" % timeout, "-test.v"],
                              os.path.join(tree, pkg), env, timeout + 30)
    shutil.rmtree(os.path.join(rd, "db"), ignore_errors=True)
    return rc, out, to


def save_replay(pid, src_path, content=None):
    d = os.path.join(VERIF, "replays", pid)
    os.makedirs(d, exist_ok=True)
    data = content if content is not None else open(src_path, "rb").read()
    h = hashlib.sha1(data).hexdigest()[:12]
    p = os.path.join(d, h + ".json")
    open(p, "wb").write(data)
    return p


def check(pid, tier):
    spec = CHECKS[pid]
    CURRENT_PID[0] = pid
    base_seed = int(os.environ.get("VERIF_SEED", "1") or "1")
    os.environ["VERIF_TIER_EFF"] = tier
    t0 = time.time()
    work = make_work(pid)
    violations = []   # (replay_path, text)
    known_lines = []
    infra = []
    try:
        tree = prepare_tree(work)
        pkgs = sorted({u["pkg"] for u in spec["units"]})
        bins = {}
        for pkg in pkgs:
            bins[pkg] = build(work, tree, pkg)
        for u in spec["units"]:
            if u.get("asan"):
                bins[u["pkg"] + "+asan"] = build(work, tree, u["pkg"], ("-asan",), "+asan")
            if u.get("kind") == "fuzz" and u[tier] is not None and u["pkg"] + "+fuzz" not in bins:
                # coverage instrumentation for the native fuzzing engine needs -fuzz at build time
                bins[u["pkg"] + "+fuzz"] = build(work, tree, u["pkg"], ("-fuzz=FuzzVerif",), "+fuzz")

        # ---- known findings and regression corpus (seconds-long replay tier) ----
        active_known = []
        # "also": a finding of another property whose exclusion predicate this property's units need as well
        # (C05 over colliding keys relies on the C13 findings)
        findings = [f for f in load_known() if f["property"] == pid or pid in f.get("also", [])]
        replay_results = []
        for f in findings:
            rp = os.path.join(VERIF, f["replay"])
            fu = unit_for(spec, json.load(open(rp)).get("check"))
            pkg = fu["pkg"]
            rc, out, to = replay_once(bins[bin_key(fu)], tree, pkg, rp, work, f["id"], [])
            if to:
                infra.append("replay of %s timed out" % f["id"])
                continue
            if f["status"] == "known":
                if rc != 0:
                    known_lines.append("KNOWN-FINDING: property=%s %s [%s]" % (pid, f["what"], f["id"]))
                    active_known.append(f["id"])
                else:
                    log("[known] %s no longer reproduces (not excluded in the search)" % f["id"])
                replay_results.append({"finding": f["id"], "status": "known", "reproduces": rc != 0})
            else:  # fixed
                if rc != 0:
                    violations.append((rp, "fixed finding %s is back:\n%s" % (f["id"], out[-1500:])))
                replay_results.append({"finding": f["id"], "status": "fixed", "passes": rc == 0})
        corpus_dir = os.path.join(VERIF, "corpus", pid)
        corpus_n = 0
        if os.path.isdir(corpus_dir):
            listed = {os.path.abspath(os.path.join(VERIF, f["replay"])) for f in findings}
            for name in sorted(os.listdir(corpus_dir)):
                rp = os.path.join(corpus_dir, name)
                if not name.endswith(".json") or os.path.abspath(rp) in listed:
                    continue
                ff = json.load(open(rp))
                cu = unit_for(spec, ff.get("check"))
                pkg = cu["pkg"]
                rc, out, to = replay_once(bins[bin_key(cu)], tree, pkg, rp, work, "corpus-" + name, active_known)
                corpus_n += 1
                if to:
                    infra.append("corpus replay %s timed out" % name)
                elif rc != 0:
                    violations.append((rp, "regression corpus case fails:\n" + out[-1500:]))

        # ---- generated search ----
        jobs = []
        only = os.environ.get("VERIF_ONLY_UNIT")  # development aid: run one unit of the check
        for ui, u in enumerate(spec["units"]):
            t = u[tier]
            if t is None or (only and u["test"] != only):
                continue
            if os.environ.get("VERIF_FUZZTIME") and u.get("kind") == "fuzz":
                t = dict(t, fuzztime=os.environ["VERIF_FUZZTIME"])
            shards = t.get("shards", NCPU)
            for s in range(shards):
                jobs.append((ui, u, s, t))
        results = []

        def run_job(job):
            ui, u, s, t = job
            rd = os.path.join(work, "run", "%s-u%d-%d" % (u["test"], ui, s))
            os.makedirs(os.path.join(rd, "fail"), exist_ok=True)
            seed = seed_for(base_seed, ui, s)
            binp = bins[u["pkg"] + ("+asan" if u.get("asan") else "+fuzz" if u.get("kind") == "fuzz" else "")]
            env = goenv({"VERIF_STATS": os.path.join(rd, "stats.json"), "VERIF_FAILDIR": os.path.join(rd, "fail"),
                         "VERIF_DBDIR": os.path.join(rd, "db"), "VERIF_TIER": tier, "VERIF_KNOWN": ",".join(active_known),
                         "VERIF_BIN": binp, "VERIF_SHARD": str(s), "VERIF_SEED_EFF": str(seed)})
            env.update(u.get("env", {}))
            timeout = t.get("timeout", 600 if tier == "quick" else 4 * 3600)
            if u.get("kind") == "fuzz":
                env["VERIF_STATS_PER_PROCESS"] = "1"
                cache = os.path.join(rd, "fuzzcache")
                cmd = [binp, "-test.run", "^$", "-test.fuzz", "^%s$" % u["test"], "-test.fuzztime", t["fuzztime"],
                       "-test.fuzzcachedir", cache, "-test.parallel", str(t.get("parallel", NCPU))]
            else:
                cmd = [binp, "-test.run", "^%s$" % u["test"], "-rapid.checks=%d" % t["checks"],
                       "-rapid.seed=%d" % seed, "-rapid.nofailfile", "-rapid.shrinktime=%s" % t.get("shrinktime", "20s"),
                       "-test.timeout", "%ds" % timeout]
                if "steps" in t:
                    cmd.append("-rapid.steps=%d" % t["steps"])
            rc, out, to, dt = run_proc(cmd, os.path.join(tree, u["pkg"]), env, timeout + 60)
            shutil.rmtree(os.path.join(rd, "db"), ignore_errors=True)
            synthesized = None
            if u.get("kind") == "fuzz" and rc != 0 and not to:
                # a worker died (or the target failed without writing a case): turn the engine's crasher file into a replay
                faildir = os.path.join(rd, "fail")
                if not any(f.startswith("fail-") for f in os.listdir(faildir)):
                    cdir = os.path.join(tree, u["pkg"], "testdata", "fuzz", u["test"])
                    if os.path.isdir(cdir):
                        files = sorted((os.path.getmtime(os.path.join(cdir, f)), f) for f in os.listdir(cdir))
                        if files:
                            data = go_corpus_bytes(os.path.join(cdir, files[-1][1]))
                            if data is not None:
                                import base64
                                ff = {"property": spec_id(u), "check": u["test"], "failure": "native fuzzing: the process died or the target failed on this input: " + out[-600:],
                                      "case": {"data": base64.b64encode(data).decode(), "input": base64.b64encode(data).decode()}}
                                json.dump(ff, open(os.path.join(faildir, "fail-%s.json" % u["test"]), "w"))
                                synthesized = os.path.join(faildir, "fail-%s.json" % u["test"])
            return dict(ui=ui, unit=u, shard=s, seed=seed, rc=rc, out=out, timed_out=to, rd=rd, dt=dt, req=t.get("checks", 0), synthesized=synthesized)

        def confirm_fuzz_death(res):
            """A fuzz worker died (or stopped answering) and the engine blamed an input: only an input that also fails
            when replayed in a fresh process is a finding (under load the engine reports stalled workers as crashes)."""
            u = res["unit"]
            rc2, out2, to2 = replay_once(bins[bin_key(u)], tree, u["pkg"], res["synthesized"], work, "fuzzdeath-%s" % u["test"], active_known)
            return rc2 != 0 and not to2

        def run_job_retry(job):
            res = run_job(job)
            for attempt in range(2):
                if not res.get("synthesized"):
                    break
                if confirm_fuzz_death(res):
                    break
                log("[fuzz] %s: the engine reported a dead worker, the blamed input passes in a fresh process (attempt %d)" % (res["unit"]["test"], attempt + 1))
                os.remove(res["synthesized"])
                if attempt == 0:
                    shutil.rmtree(res["rd"], ignore_errors=True)
                    res = run_job(job)
                    res["retried"] = True
                else:
                    res["synthesized"] = None
                    res["flaky_fuzz"] = True
            faildir = os.path.join(res["rd"], "fail")
            has_fail = os.path.isdir(faildir) and any(f.startswith("fail-") or f == "current.json" for f in os.listdir(faildir))
            if res["rc"] != 0 and not res["timed_out"] and not has_fail:
                # failed without naming a case (harness/infrastructure hiccup, e.g. under load): one retry with the same seed
                log("[retry] %s shard %d failed without a failure file (rc=%s), output tail: %s" % (res["unit"]["test"], res["shard"], res["rc"], res["out"][-600:]))
                shutil.rmtree(res["rd"], ignore_errors=True)
                res = run_job(job)
                res["retried"] = True
            return res

        with cf.ThreadPoolExecutor(max_workers=NCPU) as ex:
            for res in ex.map(run_job_retry, jobs):
                results.append(res)

        # ---- aggregate ----
        agg = {}
        fail_candidates = {}
        for res in results:
            u = res["unit"]
            name = u["test"]
            a = agg.setdefault(name, dict(evaluations=0, nontrivial=0, labels={}, excluded={}, fps=set(), samples=[],
                                          fp_overflow=0, shards=0, notes={}, requested=0))
            a["shards"] += 1
            a["requested"] += res["req"]
            stat_files = [os.path.join(res["rd"], f) for f in sorted(os.listdir(res["rd"])) if f.startswith("stats.json") and not f.endswith(".tmp")] if os.path.isdir(res["rd"]) else []
            for sp in stat_files:
                for st in (json.load(open(sp)) or []):
                    b = agg.setdefault(st["check"], dict(evaluations=0, nontrivial=0, labels={}, excluded={}, fps=set(),
                                                         samples=[], fp_overflow=0, shards=0, notes={}, requested=0))
                    b["evaluations"] += st["evaluations"]
                    b["nontrivial"] += st["nontrivial"]
                    b["fp_overflow"] += st.get("fp_overflow", 0)
                    for k, v in (st.get("labels") or {}).items():
                        b["labels"][k] = b["labels"].get(k, 0) + v
                    for k, v in (st.get("excluded") or {}).items():
                        b["excluded"][k] = b["excluded"].get(k, 0) + v
                    b["fps"].update(st.get("fps") or [])
                    b["notes"].update(st.get("notes") or {})
                    for smp in (st.get("samples") or []):
                        if len(b["samples"]) < 4:
                            b["samples"].append(smp)
            faildir = os.path.join(res["rd"], "fail")
            fails = [f for f in os.listdir(faildir) if f.startswith("fail-")] if os.path.isdir(faildir) else []
            if res["timed_out"]:
                infra.append("%s shard %d timed out after %.0fs (inconclusive)\n%s" % (name, res["shard"], res["dt"], res["out"][-1500:]))
                continue
            if res["rc"] == 0:
                continue
            if res.get("flaky_fuzz"):
                infra.append("%s: fuzz worker died twice without a reproducible input (inconclusive)\n%s" % (name, res["out"][-1500:]))
                continue
            if fails:
                for f in fails:
                    fp = os.path.join(faildir, f)
                    cand = fail_candidates.setdefault(f, [])
                    cand.append((os.path.getsize(fp), fp, "%s shard %d seed %d:\n%s" % (name, res["shard"], res["seed"], tail_fail(res["out"]))))
                continue
            cur = os.path.join(faildir, "current.json")
            if os.path.exists(cur) and u.get("crash_is_violation", True):
                # the process died while executing a case: confirm by replaying that case in a fresh process
                p = save_replay(pid, cur)
                rc2, out2, to2 = replay_once(bins[bin_key(u)], tree, u["pkg"], p, work, "crash-%s-%d" % (name, res["shard"]), active_known)
                if rc2 != 0 and not to2:
                    violations.append((p, "%s shard %d: process died (rc=%s) and the saved case reproduces it:\n%s" %
                                       (name, res["shard"], res["rc"], out2[-1500:])))
                else:
                    os.remove(p)
                    infra.append("%s shard %d: process died (rc=%s) but the saved case does not reproduce it (flaky, inconclusive)\n%s" %
                                 (name, res["shard"], res["rc"], res["out"][-2500:]))
                continue
            infra.append("%s shard %d failed without a failure file (rc=%s):\n%s" % (name, res["shard"], res["rc"], res["out"][-3000:]))

        # one replay per failing check function: the smallest shrunk case
        for f, cand in sorted(fail_candidates.items()):
            cand.sort()
            p = save_replay(pid, cand[0][1])
            violations.append((p, cand[0][2] + "\n(%d shard(s) failed in this check function)" % len(cand)))

        # ---- generator health ----
        for u in spec["units"]:
            if u[tier] is None or (only and u["test"] != only):
                continue
            a = agg.get(u["test"])
            if u.get("nostats"):
                continue
            if not a or a["evaluations"] == 0:
                if not violations:
                    infra.append("%s produced no statistics" % u["test"])
                continue
            for label, frac in (u.get("floors") or {}).items():
                got = a["labels"].get(label, 0) / max(1, a["evaluations"])
                if got < frac and not violations:
                    infra.append("generator health: %s label %r at %.4f < floor %.4f" % (u["test"], label, got, frac))

        # ---- evidence ----
        wall = time.time() - t0
        evaluations = sum(a["evaluations"] for a in agg.values())
        distinct = sum(len(a["fps"]) for a in agg.values())
        samples = []
        for name in sorted(agg):
            for smp in agg[name]["samples"][:2]:
                samples.append({"check": name, "case": smp})
        per_unit = {}
        for name in sorted(agg):
            a = agg[name]
            per_unit[name] = {
                "evaluations": a["evaluations"], "requested": a["requested"], "nontrivial": a["nontrivial"],
                "distinct_nontrivial": len(a["fps"]), "fingerprints_not_tracked": a["fp_overflow"],
                "labels": dict(sorted(a["labels"].items())), "excluded_by_known_finding": a["excluded"],
                "shards": a["shards"], "notes": a["notes"],
            }
        ev = {
            "property_id": pid, "tier": tier, "seed": base_seed, "level": spec["level"],
            "coverage": {
                "evaluations": evaluations, "distinct_nontrivial": distinct,
                "rule": spec["rule"], "samples": samples[:8], "units": per_unit,
                "known_findings": replay_results, "regression_corpus_cases": corpus_n,
                "exhaustive": False,
            },
            "assumptions": spec.get("assumptions", []),
            "wall_s": round(wall, 2), "violations": len(violations),
        }
        if infra:
            ev["coverage"]["inconclusive"] = [i[:400] for i in infra]
        # evidence/ describes /repo only: runs against another tree (sensitivity runs with VERIF_REPO) report elsewhere
        evdir = os.path.join(VERIF, "evidence" if os.path.realpath(REPO) == "/repo" else "evidence_other_tree")
        os.makedirs(evdir, exist_ok=True)
        tmp = os.path.join(evdir, pid + ".json.tmp")
        json.dump(ev, open(tmp, "w"), indent=1, sort_keys=False)
        os.replace(tmp, os.path.join(evdir, pid + ".json"))

        for l in known_lines:
            print(l)
        print("[%s/%s] seed=%d evaluations=%d distinct_nontrivial=%d violations=%d wall=%.1fs" %
              (pid, tier, base_seed, evaluations, distinct, len(violations), wall))
        for name in sorted(agg):
            a = agg[name]
            top = ", ".join("%s=%d" % kv for kv in sorted(a["labels"].items())[:40])
            print("  %s: eval=%d nontrivial=%d distinct=%d  %s" % (name, a["evaluations"], a["nontrivial"], len(a["fps"]), top))
            if a["excluded"]:
                print("    excluded by known findings: %s" % a["excluded"])
        if violations:
            seen = set()
            for p, text in violations:
                log("---- violation ----\n" + text)
                if p in seen:
                    continue
                seen.add(p)
                print("VIOLATION property=%s replay=%s" % (pid, p))
            return 1
        if infra:
            for i in infra:
                log("[inconclusive] " + i)
            return 2
        return 0
    except Infra as e:
        log("[infra] " + str(e))
        return 2
    finally:
        if not os.environ.get("VERIF_KEEP"):
            shutil.rmtree(work, ignore_errors=True)


def go_corpus_bytes(path):
    """Parses a Go fuzz corpus file holding one []byte value."""
    import ast
    try:
        lines = open(path, encoding="utf-8", errors="surrogateescape").read().splitlines()
        for l in lines[1:]:
            l = l.strip()
            if l.startswith("[]byte(") and l.endswith(")"):
                return ast.literal_eval("b" + l[len("[]byte("):-1])
    except Exception:
        return None
    return None


CURRENT_PID = [None]


def spec_id(u):
    return CURRENT_PID[0]


def tail_fail(out):
    lines = out.splitlines()
    keep = [l for l in lines if not l.startswith("=== ")]
    return "\n".join(keep[-40:])


def unit_for(spec, check_name):
    for u in spec["units"]:
        if u["test"] == check_name or check_name in u.get("also", []):
            return u
    return spec["units"][0]


def unit_pkg(spec, check_name):
    return unit_for(spec, check_name)["pkg"]


def bin_key(u):
    return u["pkg"] + ("+asan" if u.get("asan") else "")


def replay(path):
    ff = json.load(open(path))
    pid = ff["property"]
    spec = CHECKS[pid]
    work = make_work("replay")
    try:
        tree = prepare_tree(work)
        u = unit_for(spec, ff.get("check"))
        pkg = u["pkg"]
        binp = build(work, tree, pkg, ("-asan",), "+asan") if u.get("asan") else build(work, tree, pkg)
        known = [f["id"] for f in load_known() if (f["property"] == pid or pid in f.get("also", [])) and f["status"] == "known"]
        if os.environ.get("VERIF_NO_KNOWN"):
            known = []
        rc, out, to = replay_once(binp, tree, pkg, path, work, "cli", known)
        print(out if os.environ.get("VERIF_TRACE") else out[-6000:])
        if to:
            return 2
        if rc != 0:
            print("VIOLATION property=%s replay=%s" % (pid, os.path.abspath(path)))
            return 1
        print("replay passed")
        return 0
    except Infra as e:
        log("[infra] " + str(e))
        return 2
    finally:
        if not os.environ.get("VERIF_KEEP"):
            shutil.rmtree(work, ignore_errors=True)


def setup():
    work = make_work("setup")
    try:
        tree = prepare_tree(work)
        pkgs = sorted({u["pkg"] for s in CHECKS.values() for u in s["units"]})
        for pkg in pkgs:
            build(work, tree, pkg)
        for s in CHECKS.values():
            for u in s["units"]:
                if u.get("asan"):
                    build(work, tree, u["pkg"], ("-asan",), "+asan")
        print("setup ok: built %s" % ", ".join(pkgs))
        return 0
    except Infra as e:
        log("[infra] " + str(e))
        return 2
    finally:
        shutil.rmtree(work, ignore_errors=True)


def main(argv):
    if len(argv) < 2:
        print(__doc__)
        return 2
    if argv[1] == "check":
        pid = argv[2]
        tier = os.environ.get("VERIF_TIER") or "quick"
        if "--tier" in argv:
            tier = argv[argv.index("--tier") + 1]
        if tier not in ("quick", "thorough"):
            tier = "quick"
        if pid not in CHECKS:
            log("unknown property " + pid)
            return 2
        return check(pid, tier)
    if argv[1] == "replay":
        return replay(argv[2])
    if argv[1] == "setup":
        return setup()
    print(__doc__)
    return 2


if __name__ == "__main__":
    try:
        rc = main(sys.argv)
    except Exception:
        import traceback
        traceback.print_exc()
        log("[infra] driver error (inconclusive)")
        rc = 2
    sys.exit(rc)
